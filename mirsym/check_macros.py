"""C17: each statsd_* macro is exactly the tagged quiet send on the global default client.

A driver crate is generated (one function per macro x value type x tag count, and the reference call chain next to
it), its MIR is dumped together with the two crates, and both functions are executed from the same symbolic global
state; their event logs (argument evaluations, emits, handler calls, panics) must be identical."""
import json
import sys
import os
import time

import z3

from . import dump, replay
from . import client_model as cm
from .executor import Explorer, Unwinding
from .mirparse import Unsupported
from .stubs import some, NONE, ok, new_atomic, is_variant, as_str
from .values import *

MACROS = [('count', 'Counted', 'statsd_count', 'c'), ('time', 'Timed', 'statsd_time', 'ms'), ('gauge', 'Gauged', 'statsd_gauge', 'g'),
          ('meter', 'Metered', 'statsd_meter', 'm'), ('histogram', 'Histogrammed', 'statsd_histogram', 'h'),
          ('distribution', 'Distributed', 'statsd_distribution', 'd'), ('set', 'Setted', 'statsd_set', 's')]


def tyid(t):
    return t.replace('<', '_').replace('>', '').replace(' ', '')


def generate_driver(eps, dirpath, repo_src):
    os.makedirs(os.path.join(dirpath, 'src'), exist_ok=True)
    open(os.path.join(dirpath, 'Cargo.toml'), 'w').write(
        '[package]\nname = "macro_driver"\nversion = "0.1.0"\nedition = "2021"\n\n[workspace]\n\n[dependencies]\n'
        'cadence = { path = "%s" }\ncadence-macros = { path = "%s" }\n' % (os.path.join(repo_src, 'cadence'), os.path.join(repo_src, 'cadence-macros')))
    lock = os.path.join(repo_src, 'Cargo.lock')
    if os.path.exists(lock):
        import shutil
        shutil.copy(lock, os.path.join(dirpath, 'Cargo.lock'))
    lines = ['#![allow(unused_imports, clippy::all)]', 'use cadence::prelude::*;', 'use std::time::Duration;',
             'use cadence_macros::{statsd_count, statsd_time, statsd_gauge, statsd_meter, statsd_histogram, statsd_distribution, statsd_set};', '']
    for a in ('key', 'k1', 'v1', 'k2', 'v2'):
        lines.append('#[inline(never)] pub fn arg_%s() -> &\'static str { unimplemented!() }' % a)
    vtypes = sorted(set(ep[1] for ep in eps if ep[0] != 'CountedExt'))
    for t in vtypes:
        lines.append('#[inline(never)] pub fn arg_val_%s() -> %s { unimplemented!() }' % (tyid(t), t))
    names = []
    for meth, tr, mac, code in MACROS:
        for ep in eps:
            if ep[0] != tr:
                continue
            t = ep[1]
            for nt in (0, 1, 2):
                tags_m = ''.join(', arg_k%d() => arg_v%d()' % (i, i) for i in range(1, nt + 1))
                tags_r = ''.join('.with_tag(arg_k%d(), arg_v%d())' % (i, i) for i in range(1, nt + 1))
                n = '%s_%s_%d' % (meth, tyid(t), nt)
                lines.append('pub fn m_%s() { %s!(arg_key(), arg_val_%s()%s); }' % (n, mac, tyid(t), tags_m))
                lines.append('pub fn r_%s() { let client = cadence_macros::get_global_default().unwrap(); client.%s_with_tags(arg_key(), arg_val_%s())%s.send() }'
                             % (n, meth, tyid(t), tags_r))
                names.append((n, meth, tr, t, nt, code))
    open(os.path.join(dirpath, 'src', 'lib.rs'), 'w').write('\n'.join(lines) + '\n')
    return names


def install(ex, prog, state):
    cm.install(ex)
    # argument expressions are opaque environment functions: evaluation order and count are observable
    def mk_arg(name, val_fn):
        def h(ex_, args, callee):
            ex_.events.append(('arg', name))
            return val_fn(ex_)
        return h
    for a in ('key', 'k1', 'v1', 'k2', 'v2'):
        nm = {'key': 'key', 'k1': 't0k', 'v1': 't0v', 'k2': 't1k', 'v2': 't1v'}[a]
        ex.stubs['arg_' + a] = mk_arg(a, lambda ex_, nm=nm: cm.atom(nm))
    for t in ('i64', 'i32', 'u64', 'u32', 'f64', 'Duration', 'Vec<u64>', 'Vec<f64>', 'Vec<Duration>'):
        ex.stubs['arg_val_' + tyid(t)] = mk_arg('val', lambda ex_, t=t: cm.value_for(ex_, t, 2)[0])


def global_state(ex, prog, mode, keep_holder=False):
    """The holder: UNSET, or COMPLETE with a client built by the builder's own MIR (prefix, default tag, handler; sink outcome symbolic)."""
    if mode == 'unset':
        cellv = Native('UnsafeCell', Cell(NONE, 'holder-value'), fresh_id())
        return Agg('struct', 'SingletonHolder', None, (cellv, new_atomic(mk_int(0, 'usize'), 'state')))
    cfg = cm.Config(prefix_dots=1, dtags=('kv',), default_cid=True, form='quiet')
    client = cm.build_client(ex, prog, cfg)
    if mode in ('set-api', 'set-twice'):
        # the state is produced by the real set_global_default on an UNSET holder (a second call must be a no-op)
        if not keep_holder:
            holder = global_state(ex, prog, 'unset')
            ex.globals = {'SingletonHolder<StatsdClient>': Cell(holder, 'HOLDER')}
        setter = [k for k in prog.funcs if k.endswith('set_global_default')]
        if len(setter) != 1:
            raise Unsupported('set_global_default not found (%d)' % len(setter))
        ex.call(setter[0], [client])
        if mode == 'set-twice':
            other = cm.build_client(ex, prog, cm.Config(prefix_dots=0, dtags=(), default_cid=False, form='quiet'))
            ex.call(setter[0], [other])
        return ex.globals['SingletonHolder<StatsdClient>'].v
    from .stubs import arc_new
    arc = arc_new(ex, [client], 'Arc::new')
    cellv = Native('UnsafeCell', Cell(some(arc), 'holder-value'), fresh_id())
    return Agg('struct', 'SingletonHolder', None, (cellv, new_atomic(mk_int(2, 'usize'), 'state')))


def norm_events(ex, events):
    out = []
    for e in events:
        if e[0] == 'arg':
            out.append(('arg', e[1]))
        elif e[0] == 'emit':
            out.append(('emit', e[1].key(), e[2]))
        elif e[0] == 'handler':
            kind = cm.error_kind(ex, ex.prog, e[1])
            out.append(('handler', kind))
        elif e[0] == 'panic':
            out.append(('panic',))
    return out


ASSUMPTIONS = [
    'argument expressions are opaque functions (their evaluation is an observable event); key/tag strings are atoms of symbolic length, values symbolic',
    'the global holder is either UNSET or COMPLETE with a client built by the builder MIR (prefix, one default tag, default container id, handler); the sink outcome is symbolic',
    'memory-ordering aspects of the holder are C18\'s subject; thread-local or other hidden state in the macro path is reported as unsupported',
]


def run(out, replay_path=None):
    pid = out.pid
    if replay_path:
        sc = json.load(open(replay_path))
        res = replay.run_scenarios([sc])[0]
        hit = [v for v in res.get('violations', []) if v['prop'] == pid]
        out.evidence = {'coverage': {'traces_validated_against_impl': 1, 'samples': [sc], 'explanation': 'replay only'}}
        if hit:
            out.violations.append({'key': None, 'what': hit[0]['detail'], 'scenario': sc, 'native': hit})
        return
    # first dump: the two crates (for the entry-point table), then the generated driver
    src = dump.copy_repo()
    sd = dump.scratch_dir()
    prog0, _ = dump.dump_mir()
    eps = cm.entry_points(prog0)
    ddir = os.path.join(sd, 'macro_driver')
    names = generate_driver(eps, ddir, src)
    prog, dinfo = dump.dump_mir(extra_crates=[('macro_driver', ddir)])
    thorough = out.tier == 'thorough'
    findings, samples = [], []
    paths = obligations = 0
    stats = []
    sel = names if thorough else [n for i, n in enumerate(names) if n[4] != 1 or (i + out.seed) % 3 == 0]
    api_done = set()
    for (n, meth, tr, t, nt, code) in sel:
        modes = ['set', 'unset']
        if meth not in api_done and nt == 0:
            # once per macro kind: the global state as left by set_global_default called once / twice
            api_done.add(meth)
            modes += ['set-api', 'set-twice', 'late-set']
        for mode in modes:
            logs = {}
            for which in ('m', 'r'):
                ex = Explorer(prog, timeout_ms=60000, seed=out.seed)
                install(ex, prog, mode)
                names_in = ['key', 't0k', 't0v', 't1k', 't1v', 'P', 'd0k', 'd0v', 'dcid']
                ex.assumptions = cm.len_assumptions(names_in) + [z3.UGE(z3.BitVec('len_P', 64), 1)]
                ex.var_bounds = cm.len_bounds(names_in)
                ex.out_generic = None
                results = []

                def entry(ex, which=which, n=n, mode=mode, tr=tr):
                    from .stubs import Unwinding
                    ex.out['generic_T'] = dict((m_[1], m_[0]) for m_ in MACROS) and {'Counted': 'Counter', 'Timed': 'Timer', 'Gauged': 'Gauge', 'Metered': 'Meter',
                                                                                  'Histogrammed': 'Histogram', 'Distributed': 'Distribution', 'Setted': 'Set'}[tr]
                    fn = [k for k in prog.funcs if k.endswith('%s_%s' % (which, n)) and ('macro_driver' in prog.funcs[k].crate)]
                    if len(fn) != 1:
                        raise Unsupported('driver function %s_%s not found (%d)' % (which, n, len(fn)))
                    if mode == 'late-set':
                        # the same thread used the macro before any client was set (it panicked, as documented), then
                        # the client is set through the API: from then on the macro must work
                        holder = global_state(ex, prog, 'unset')
                        ex.globals = {'SingletonHolder<StatsdClient>': Cell(holder, 'HOLDER')}
                        try:
                            ex.call(fn[0], [])
                        except Unwinding:
                            pass
                    holder = global_state(ex, prog, 'set-api' if mode == 'late-set' else mode, keep_holder=(mode == 'late-set'))
                    ex.globals = {'SingletonHolder<StatsdClient>': Cell(holder, 'HOLDER')}
                    ex.events = [e for e in ex.events if False]
                    return ex.call(fn[0], [])

                def on_path(ex, res, status):
                    key = tuple(str(c) for c in ex.pc if 'emit_fail' in str(c) or 'secs' in str(c) or 'nanos' in str(c))
                    results.append((key, status, norm_events(ex, ex.events)))

                ex.run(entry, on_path)
                stats.append(ex.stats)
                logs[which] = results
                paths += len(results)
            obligations += 1
            ms = sorted((r[1], r[2]) for r in logs['m'])
            rs = sorted((r[1], r[2]) for r in logs['r'])
            if ms != rs and os.environ.get('VERIF_DEBUG'):
                print('DEBUG C17 diff', n, mode, 'only-macro:', [x for x in ms if x not in rs][:3], 'only-ref:', [x for x in rs if x not in ms][:3], file=sys.stderr)
            if ms != rs:
                findings.append({'prop': 'C17', 'clause': 'same-as-tagged-quiet-send', 'macro': n, 'state': mode,
                                 'detail': 'statsd_%s!(%s, %d tags), global client %s: macro paths %r differ from the reference call chain %r' % (meth, t, nt, mode, ms[:2], rs[:2]),
                                 'scenario': {'kind': 'macro', 'macro': meth, 'vty': t, 'ntags': nt, 'state': mode}})
            # panics iff unset
            for r in logs['m']:
                obligations += 1
                if (r[1] == 'panic') != (mode == 'unset'):
                    findings.append({'prop': 'C17', 'clause': 'panics-iff-unset', 'macro': n, 'state': mode,
                                     'detail': 'statsd_%s! with global client %s: %s' % (meth, mode, r[1]),
                                     'scenario': {'kind': 'macro', 'macro': meth, 'vty': t, 'ntags': nt, 'state': mode}})
            if len(samples) < 3 and mode == 'set':
                samples.append({'macro': n, 'paths': [repr(x)[:300] for x in ms[:2]]})
    from .check_writer import _stats_sum
    tot, st, fns, stubs_, steps, _, backend = _stats_sum(stats)
    confirmed, replayed = [], 0
    todo = []
    seen = set()
    for f in findings:
        k = json.dumps(f['scenario'], sort_keys=True)
        if k not in seen:
            seen.add(k)
            todo.append(f)
    todo = todo[:30]
    if todo:
        outs = [replay.run_scenarios([f['scenario']])[0] for f in todo[:8]]
        todo = todo[:8]
        replayed = len(todo)
        for f, o in zip(todo, outs):
            hit = [v for v in o.get('violations', []) if v['prop'] == pid]
            if hit:
                confirmed.append((f, hit))
    out.evidence = {
        'level': 'model_checking', 'assumptions': ASSUMPTIONS,
        'coverage': {
            'states': paths, 'transitions': steps, 'traces_validated_against_impl': replayed, 'obligations': obligations, 'discharged': obligations - len(findings),
            'queries': tot, 'evaluations': max(1, tot['total']), 'distinct_nontrivial': paths,
            'rule': 'one case = one feasible symbolic path of a macro expansion or of its reference call chain; per (macro, value type, tag count, global state) the two path sets must have identical event logs',
            'solver_time_s': round(st, 2), 'functions_encoded': sorted(fns)[:400], 'stubs': sorted(stubs_),
            'bounds': {'macros': 7, 'driver_functions': len(sel), 'tags': '0..2', 'global_states': ['UNSET', 'COMPLETE(client with prefix, default tag, container id, handler, symbolic sink outcome)', 'UNSET then set_global_default (real MIR) once', '... twice', 'macro used on this thread while UNSET (panic), then set_global_default, then the macro (0-tag form of each macro kind)']},
            'mir': dinfo, 'samples': samples or [{'note': 'none'}],
        },
    }
    if confirmed:
        f, hit = confirmed[0]
        out.violations.append({'key': 'macro:%s' % hit[0]['clause'], 'what': '%s: %s' % (hit[0]['clause'], hit[0]['detail']), 'scenario': f['scenario'], 'native': hit})
        return
    if findings:
        out.inconclusive.append('the solver side reports %s (%s) but it was not reproduced natively' % (findings[0]['clause'], findings[0]['detail'][:300]))
