"""C05/C06/C07/C19 (+ the writer part of C20): MultiLineWriter over the BufWriter stub.

Two query families, both driven by the MIR of `MultiLineWriter::{with_ending,write,flush}`:

* inductive step: one `write` / `flush` / drop from an ARBITRARY state satisfying the
  representation invariant `Inv`; all sizes are free 64-bit terms. Passing obligations
  cover histories of any length, any capacity, any terminator length, any metric length.
* bounded histories (BMC): op sequences of length <= K from the state built by
  `with_ending`'s own MIR, op kinds enumerated, every size / fault symbolic.
"""
import itertools
import json
import os
import time
import z3

from .mirparse import Unsupported
from .values import *
from .executor import Explorer, Unwinding, PathCut
from . import stubs, env_io
from .env_io import Content, new_bufwriter, U64
from .stubs import is_variant

ISIZE_MAX = (1 << 63) - 1


class Violation:
    def __init__(self, prop, clause, detail, model_vals, scenario):
        self.prop = prop
        self.clause = clause
        self.detail = detail
        self.model = model_vals
        self.scenario = scenario

    def to_json(self):
        return {'property': self.prop, 'clause': self.clause, 'detail': self.detail, 'model': self.model,
                'scenario': self.scenario}


def bv(m, t):
    v = m.eval(t, model_completion=True)
    return v.as_long()


# ------------------------------------------------------------------------------------
# symbolic pre-state
# ------------------------------------------------------------------------------------

class WriterState:
    """Handles on the pieces of one symbolic MultiLineWriter."""

    def __init__(self, ex, cap, elen, written, b, counters=None, faults=True):
        self.cap, self.elen, self.written, self.b = cap, elen, written, b
        self.ending = Str((Atom('ending', elen),), 'Vec<u8>')
        self.inner_cell = Cell(Native('EnvWriter', {'faults': faults}, fresh_id()), 'env-writer')
        content = Content(b, ()) if b is not None else Content()
        bw = new_bufwriter(Int(cap, 'usize'), self.inner_cell, content)
        ctr = counters or [ex_fresh_u64('ctr%d' % i) for i in range(3)]
        self.counters = ctr
        metrics = Agg('struct', 'WriterMetrics', None, tuple(Int(c, 'u64') for c in ctr))
        vals = {'written': Int(written, 'usize'), 'capacity': Int(cap, 'usize'), 'metrics': metrics, 'inner': bw, 'line_ending': self.ending}
        vals.update(LAYOUT['extra'])
        mlw = Agg('struct', 'MultiLineWriter', None, tuple(vals[n] for n in LAYOUT['names']))
        self.cell = Cell(mlw, 'mlw')

    def ref(self):
        return Ref(self.cell, (), True)

    def post(self, ex):
        v = self.cell.v
        written = v.fields[FI('written')].t
        cap = v.fields[FI('capacity')].t
        bwv = v.fields[FI('inner')]
        content = bwv.state[2]
        return written, cap, content


def ex_fresh_u64(name):
    return z3.BitVec(name, 64)


LAYOUT = {'names': ['written', 'capacity', 'metrics', 'inner', 'line_ending'], 'extra': {}, 'extra_pc': []}
REQUIRED_FIELDS = ('written', 'capacity', 'metrics', 'inner', 'line_ending')


def FI(name):
    return LAYOUT['names'].index(name)


def field_order_check(prog):
    """The harness builds the struct by field name: read the declaration order from the source. Fields beyond the
    five known ones are taken to be configuration derived by the constructor: their value is computed by running the
    constructor's MIR on symbolic (capacity, terminator) and is assumed to stay what the constructor made it (an
    assumption of the inductive step only; bounded histories run the real constructor and need none)."""
    import re, os
    for crate, root in prog.src_roots.items():
        p = os.path.join(root, 'cadence', 'src', 'io.rs')
        if not os.path.exists(p):
            p = os.path.join(root, 'src', 'io.rs')
        if os.path.exists(p):
            txt = open(p).read()
            m = re.search(r'pub struct MultiLineWriter<T>\s*where\s*T: Write,\s*\{(.*?)\n\}', txt, re.S)
            if not m:
                raise Unsupported('MultiLineWriter struct definition not found')
            names = re.findall(r'^\s*(?:pub(?:\([a-z]+\))?\s+)?([a-z_]+):', m.group(1), re.M)
            missing = [n for n in REQUIRED_FIELDS if n not in names]
            if missing:
                raise Unsupported('MultiLineWriter no longer has the fields %r (has %r)' % (missing, names))
            m = re.search(r'struct WriterMetrics \{(.*?)\n\}', txt, re.S)
            mnames = re.findall(r'^\s*([a-z_]+):', m.group(1), re.M)
            if mnames != ['inner_write', 'buf_write', 'flushed']:
                raise Unsupported('WriterMetrics field order changed: %r' % mnames)
            if names != LAYOUT['names'] or (set(names) - set(REQUIRED_FIELDS) and not LAYOUT['extra']):
                LAYOUT['names'] = names
                LAYOUT['extra'], LAYOUT['extra_pc'] = {}, []
                extra = [n for n in names if n not in REQUIRED_FIELDS]
                if extra:
                    _derive_extra_fields(prog, extra)
            return
    raise Unsupported('io.rs not found')


def _derive_extra_fields(prog, extra):
    cap, elen = z3.BitVec('cap', 64), z3.BitVec('elen', 64)
    ex = make_explorer(prog, 60000, 0)
    ex.assumptions = [z3.ULE(cap, ISIZE_MAX), z3.ULE(elen, ISIZE_MAX)]
    oks = []

    def entry(ex):
        w = Native('EnvWriter', {'faults': True}, fresh_id())
        end = Str((Atom('ending', elen),), 'str')
        return ex.call(prog.find_impl_method('with_ending', 'MultiLineWriter<T>'), [w, Int(cap, 'usize'), end])

    def on_path(ex, result, status):
        if status == 'ok':
            oks.append((result, list(ex.pc)))

    ex.run(entry, on_path)
    if len(oks) != 1:
        raise Unsupported('MultiLineWriter has extra fields %r and its constructor has %d normal paths (cannot derive their values)' % (extra, len(oks)))
    result, pc = oks[0]
    for n in extra:
        LAYOUT['extra'][n] = result.fields[LAYOUT['names'].index(n)]
    LAYOUT['extra_pc'] = pc


def inv(cap, elen, written, b):
    """Representation invariant of a MultiLineWriter whose BufWriter holds b bytes of whole lines."""
    return z3.And(
        z3.ULE(b, cap),
        z3.Or(written == b, z3.And(b == 0, written == cap)),
        z3.Or(b == 0, z3.UGE(b, elen + 1)),      # non-empty metrics: a buffered line has >= 1 + |ending| bytes
        z3.ULE(cap, ISIZE_MAX), z3.ULE(elen, ISIZE_MAX),
    )


# ------------------------------------------------------------------------------------
# the checker for one step
# ------------------------------------------------------------------------------------

def atoms_of(snap, m_atom_names):
    """Flatten a wire snapshot into a tuple of symbols: 'L', ('m',i), ('e',i), or '?'"""
    kind, prefix, chunks = snap
    out = []
    if prefix is not None:
        out.append('L')
    for c in chunks:
        for p in c.norm():
            if isinstance(p, bytes):
                out.append(('lit', p))
            else:
                out.append(p.name)
    return tuple(out)


class StepChecker:
    """Evaluates Legal (C05, C06, C07, C19) and Inv' on one finished step.

    `pre_sym` is what the BufWriter held before the step: ('L',) in the inductive step (an
    abstract run of whole lines, `b` bytes, possibly 0) or the concrete atom tuple
    (m0, ending, m1, ending, ...) in bounded histories. `wire` are this step's socket events.
    """

    def __init__(self, ex, op, cap, elen, b, pre_sym, mlen=None, mname='m', label=''):
        self.ex, self.op, self.cap, self.elen, self.b = ex, op, cap, elen, b
        self.pre_sym, self.mlen, self.mname, self.label = tuple(pre_sym), mlen, mname, label

    def run(self, result, status, wire, post, findings, obligations, check_inv=True):
        ex = self.ex
        cap, elen, b, mlen, pre = self.cap, self.elen, self.b, self.mlen, self.pre_sym
        m, e = self.mname, 'ending'
        w2, cap2, content2 = post if post is not None else (None, None, None)

        pending = []

        def oblige(prop, clause, cond, detail):
            obligations[0] += 1
            c = z3.simplify(cond)
            if z3.is_true(c):
                return
            pending.append((prop, clause, c, detail))

        def record(prop, clause, c, detail):
            findings.append({'prop': prop, 'clause': clause, 'detail': detail, 'neg': z3.Not(c), 'pc': list(ex.assumptions) + list(ex.pc),
                             'events': list(ex.events), 'op': self.op, 'label': self.label,
                             'ops': list(ex.out.get('ops', [])), 'start': ex.out.get('start', 'inv1'),
                             'trail': [list(t) for t in ex.trail[:ex.pos]]})

        def discharge():
            """One query for the conjunction; individual queries only if it can be violated."""
            if not pending or getattr(ex, 'enumerating', False):
                del pending[:]
                return
            conj = z3.And(*[c for _, _, c, _ in pending]) if len(pending) > 1 else pending[0][2]
            r = ex.check(z3.Not(conj), important=True)
            if r == 'unknown':
                raise Unsupported('solver unknown on the obligations of %s' % self.label)
            if r == 'sat':
                for prop, clause, c, detail in pending:
                    r1 = ex.check(z3.Not(c), important=True)
                    if r1 == 'unknown':
                        raise Unsupported('solver unknown on obligation %s/%s' % (prop, clause))
                    if r1 == 'sat':
                        record(prop, clause, c, detail)
            del pending[:]

        try:
            self._run(result, status, wire, post, oblige, check_inv)
        finally:
            discharge()

    def _run(self, result, status, wire, post, oblige, check_inv):
        ex = self.ex
        cap, elen, b, mlen, pre = self.cap, self.elen, self.b, self.mlen, self.pre_sym
        m, e = self.mname, 'ending'
        w2, cap2, content2 = post if post is not None else (None, None, None)

        if status == 'panic':
            for prop in ('C20', 'C07'):
                oblige(prop, 'no-panic', z3.BoolVal(False), 'panic %r in %s' % (result, self.op))
            return
        if status != 'ok':
            return

        # ---- C05: framing of every attempted socket write -----------------------------
        l_sent = False
        for ev in wire:
            _, snap, total, outcome, etok, how = ev
            sym = atoms_of(snap, None)
            l_was_sent = l_sent
            if pre and sym[:len(pre)] == pre and outcome == 'ok':
                l_sent = True
            if pre and sym == pre:
                legal = z3.And(z3.UGT(b, 0), z3.ULE(b, cap))
            elif mlen is not None and sym == pre + (m, e):
                legal = z3.ULE(b + mlen + elen, cap)
            elif mlen is not None and sym == (m, e):
                legal = z3.ULE(mlen + elen, cap)
            elif mlen is not None and sym == (m,):
                # alone, unmodified, unterminated: only if it cannot fit into an empty buffer with its
                # terminator; with an empty terminator `m` is itself a complete line
                legal = z3.Or(z3.UGT(mlen + elen, cap), z3.And(elen == 0, z3.ULE(mlen, cap)))
            elif mlen is not None and pre and sym == pre + (m,):
                legal = z3.And(elen == 0, z3.ULE(b + mlen, cap))
            else:
                legal = z3.BoolVal(False)
            oblige('C05', 'framing', legal, 'socket write %r via %s' % (sym, how))
            oblige('C05', 'non-empty-write', z3.UGT(total, 0), 'empty socket write via %s' % how)
            if ex.out.get('faults_used', 0) > 0:
                # "failures never corrupt the framing of later datagrams"
                oblige('C07', 'framing-after-failure', legal, 'after a failed socket write: socket write %r via %s' % (sym, how))
            if mlen is not None and sym == (m,) and pre and not l_was_sent:
                # "metrics that fit in the buffer leave in the order in which they were emitted": a metric written on its
                # own while earlier ones are still buffered must be one that cannot be buffered
                oblige('C06', 'order', z3.Or(b == 0, z3.UGT(mlen + elen, cap)),
                       'metric written before the metrics buffered earlier although it fits the buffer (%s)' % how)

        okev = [atoms_of(ev[1], None) for ev in wire if ev[3] == 'ok']
        sent_L = sum(1 for s in okev if pre and s[:len(pre)] == pre)
        sent_m = sum(1 for s in okev if m in s)
        post_sym = atoms_of(('content', content2.prefix_bytes, content2.chunks), None)
        post_has_L = bool(pre) and post_sym[:len(pre)] == pre
        post_has_m = m in post_sym
        stray = [a for a in post_sym[len(pre) if post_has_L else 0:] if a not in (m, e)]

        oblige('C07', 'no-duplicate', z3.BoolVal(sent_L <= 1 and sent_m <= 1), 'a metric was written twice: %r' % (okev,))
        if self.op == 'drop':
            pass
        elif sent_L == 0:
            oblige('C06', 'buffered-kept', z3.Or(b == 0, z3.BoolVal(post_has_L)),
                   'earlier metrics neither written nor still buffered (post content %r)' % (post_sym,))
        else:
            oblige('C06', 'buffered-once', z3.BoolVal(not post_has_L and not stray), 'earlier metrics written and still buffered (%r)' % (post_sym,))

        res_ok = is_variant(result, 'Ok')
        attempt_errs = [ev[4] for ev in wire if ev[3] == 'err']
        if self.op == 'write':
            if res_ok:
                n = result.fields[0]
                oblige('C06', 'returns-len', n.t == mlen, 'write returned Ok(n) with n != metric length')
                oblige('C06', 'accepted-exactly-once', z3.BoolVal((sent_m == 1) != post_has_m),
                       'Ok but metric is %s' % ('both written and buffered' if sent_m and post_has_m else 'neither written nor buffered'))
                if post_has_m:
                    rest = post_sym[len(pre):] if post_has_L else post_sym
                    whole = rest == (m, e)
                    oblige('C05', 'buffer-whole-lines', z3.Or(z3.BoolVal(whole), z3.And(elen == 0, z3.BoolVal(rest == (m,)))),
                           'buffer content after the write, %r, is not a run of whole lines' % (post_sym,))
            else:
                etok = result.fields[0]
                oblige('C07', 'error-is-sockets', z3.BoolVal(any(isinstance(a, Native) and isinstance(etok, Native) and a.ident == etok.ident for a in attempt_errs)),
                       'write returned an error that is not the error of a failed socket write of this call')
                oblige('C07', 'err-not-buffered', z3.BoolVal(not post_has_m and (e not in (post_sym[len(pre):] if post_has_L else post_sym))),
                       'write returned Err but (part of) its metric stays buffered: %r' % (post_sym,))
                oblige('C07', 'err-not-sent', z3.BoolVal(sent_m == 0), 'write returned Err but its metric was written')
            # ---- C19 greedy packing ---------------------------------------------------
            fits_strict = z3.ULT(mlen + elen, cap - b)
            if wire:
                oblige('C19', 'no-early-write', z3.Not(fits_strict),
                       'socket write although metric+terminator fits with room to spare (events %r)' % ([atoms_of(ev[1], None) for ev in wire],))
                fits_exact = (mlen + elen == cap - b)
                for ev in wire:
                    sym = atoms_of(ev[1], None)
                    if m not in sym:
                        oblige('C19', 'pack-in-order', z3.Not(fits_exact),
                               'earlier metrics flushed without a metric that still fit exactly (%r)' % (sym,))
        else:
            b2 = content2.total()
            if self.op == 'flush':
                if res_ok:
                    oblige('C06', 'flush-empties', b2 == 0, 'successful flush left bytes buffered')
                    oblige('C06', 'flush-sends-all', z3.Or(b == 0, z3.BoolVal(sent_L == 1)), 'successful flush did not write the buffered metrics')
                else:
                    etok = result.fields[0]
                    oblige('C07', 'error-is-sockets', z3.BoolVal(any(isinstance(a, Native) and a.ident == etok.ident for a in attempt_errs)),
                           'flush returned an error that is not the error of a failed socket write of this call')
            if self.op == 'drop':
                any_err = bool(attempt_errs)
                oblige('C06', 'drop-flushes', z3.Or(b == 0, z3.BoolVal(sent_L == 1 or any_err)), 'drop did not write the buffered metrics')
            oblige('C06', 'empty-flush-silent', z3.Or(z3.UGT(b, 0), z3.BoolVal(len(wire) == 0)), 'flush of an empty buffer wrote to the socket')

        # ---- Inv' ----------------------------------------------------------------------
        if check_inv and self.op != 'drop':
            b2 = content2.total()
            post_inv = z3.And(z3.ULE(b2, cap2), z3.Or(w2 == b2, z3.And(b2 == 0, w2 == cap2)), cap2 == cap)
            oblige('INV', 'inductive', post_inv, 'representation invariant not preserved by %s' % self.op)


# ------------------------------------------------------------------------------------
# drivers
# ------------------------------------------------------------------------------------

def make_explorer(prog, timeout_ms=60000, seed=0):
    ex = Explorer(prog, timeout_ms=timeout_ms, seed=seed)
    stubs.install(ex)
    env_io.install(ex)
    return ex


def mlw_fn(prog, method):
    n = prog.find_impl_method(method, 'MultiLineWriter<T>', 'Write' if method in ('write', 'flush') else None)
    if n is None:
        raise Unsupported('MultiLineWriter::%s not found in MIR' % method)
    return n


def inductive(prog, timeout_ms=60000, seed=0):
    """Base case + one inductive step per operation. Returns (findings, info)."""
    field_order_check(prog)
    findings = []
    info = {'paths': {}, 'obligations': 0, 'witness': {}}
    obligations = [0]
    stats_all = []

    cap, elen, written, b, mlen = [z3.BitVec(n, 64) for n in ('cap', 'elen', 'written', 'b', 'mlen')]
    ctrs = [z3.BitVec('ctr%d' % i, 64) for i in range(3)]
    common = [inv(cap, elen, written, b)] + [z3.ULT(c, 1 << 63) for c in ctrs] + list(LAYOUT['extra_pc'])

    for op in ('write', 'flush', 'drop'):
        ex = make_explorer(prog, timeout_ms, seed)
        ex.assumptions = list(common)
        if op == 'write':
            ex.assumptions += [z3.UGE(mlen, 1), z3.ULE(mlen, ISIZE_MAX)]
        npaths = [0]
        reach = {'any': False}

        def entry(ex, op=op):
            st = WriterState(ex, cap, elen, written, b, ctrs)
            ex.out['st'] = st
            if op == 'write':
                buf = Str((Atom('m', mlen),), 'bytes')
                return ex.call(mlw_fn(prog, 'write'), [st.ref(), buf])
            if op == 'flush':
                return ex.call(mlw_fn(prog, 'flush'), [st.ref()])
            v = st.cell.v
            st.cell.v = MOVED
            ex.drop_value(v)
            st.cell.v = v if False else st.cell.v
            ex.out['dropped'] = v
            return UNIT

        def on_path(ex, result, status, op=op):
            npaths[0] += 1
            st = ex.out.get('st')
            if status == 'cut':
                return
            if op == 'drop':
                # after drop the writer is gone; evaluate on the recorded events only
                vals = {'written': Int(written, 'usize'), 'capacity': Int(cap, 'usize'), 'metrics': UNIT,
                        'inner': new_bufwriter(Int(cap, 'usize'), st.inner_cell, Content()), 'line_ending': st.ending}
                vals.update(LAYOUT['extra'])
                st.cell.v = Agg('struct', 'MultiLineWriter', None, tuple(vals[n] for n in LAYOUT['names']))
            wire = [e for e in ex.events if e[0] == 'wire']
            StepChecker(ex, op, cap, elen, b, ('L',), mlen if op == 'write' else None).run(
                result, status, wire, st.post(ex), findings, obligations)
            reach['any'] = True

        ex.run(entry, on_path)
        info['paths'][op] = npaths[0]
        ex.stats.backend = dict(ex.smt.counts); ex.stats.backend_time = dict(ex.smt.time)
        stats_all.append(ex.stats)
        if not reach['any']:
            raise Unsupported('vacuous: no feasible path for ' + op)

    # base case: the state built by with_ending satisfies Inv (executing the constructor's MIR)
    ex = make_explorer(prog, timeout_ms, seed)
    ex.assumptions = [z3.ULE(cap, ISIZE_MAX), z3.ULE(elen, ISIZE_MAX)]
    base = {'ok': False}

    def entry0(ex):
        w = Native('EnvWriter', {'faults': True}, fresh_id())
        end = Str((Atom('ending', elen),), 'str')
        return ex.call(prog.find_impl_method('with_ending', 'MultiLineWriter<T>'), [w, Int(cap, 'usize'), end])

    def on0(ex, result, status):
        if status != 'ok':
            findings.append({'prop': 'C20', 'clause': 'no-panic', 'detail': 'constructor: %s %r' % (status, result), 'neg': z3.BoolVal(True),
                             'pc': list(ex.pc), 'events': list(ex.events), 'op': 'new', 'label': 'base', 'trail': []})
            return
        obligations[0] += 1
        w0 = result.fields[FI('written')].t
        c0 = result.fields[FI('capacity')].t
        bw = result.fields[FI('inner')]
        ending = result.fields[FI('line_ending')]
        b0 = bw.state[2].total()
        cond = z3.And(inv(c0, ending.length(), w0, b0), c0 == cap, bw.state[0].t == cap, ending.length() == elen,
                      z3.BoolVal(ending.key() == (('str', 'ending'),)))
        if ex.check(z3.Not(cond)) != 'unsat':
            findings.append({'prop': 'INV', 'clause': 'base', 'detail': 'constructor does not establish the invariant', 'neg': z3.Not(cond),
                             'pc': list(ex.pc), 'events': [], 'op': 'new', 'label': 'base', 'trail': []})
        base['ok'] = True

    ex.run(entry0, on0)
    stats_all.append(ex.stats)
    if not base['ok']:
        raise Unsupported('vacuous: constructor path')
    info['obligations'] = obligations[0]
    info['stats'] = stats_all
    return findings, info


def small_model(constraints, size_terms, limits=(16, 64, 512, 1 << 20)):
    """A model of `constraints` preferring small values for `size_terms` (replayability)."""
    from .smt import Smt
    for lim in limits + (None,):
        smt = Smt(quick_ms=3000, timeout_ms=60000)
        for c in constraints:
            smt.add(c)
        extra = [z3.ULE(t, lim) for t in size_terms] if lim is not None else []
        m = smt.model(extra)
        if m is not None:
            return m
    return None


def bmc(prog, K=3, fault_budget=1, timeout_ms=60000, seed=0, max_paths=60000, with_drop=True, opseq=None,
        prefix=None, split_depth=None, start='init'):
    """Bounded histories from the real constructor: every sequence of <= K write/flush ops (+ final drop),
    all sizes symbolic, at most `fault_budget` failing socket writes per history."""
    field_order_check(prog)
    findings = []
    obligations = [0]
    cap, elen = z3.BitVec('cap', 64), z3.BitVec('elen', 64)
    mlens = [z3.BitVec('mlen%d' % i, 64) for i in range(K)]
    ex = make_explorer(prog, timeout_ms, seed)
    ex.max_paths = max_paths
    ex.fault_budget = fault_budget
    ex.assumptions = [z3.ULE(cap, ISIZE_MAX), z3.ULE(elen, ISIZE_MAX)] + [z3.And(z3.UGE(x, 1), z3.ULE(x, ISIZE_MAX)) for x in mlens]
    written0, b0 = z3.BitVec('written', 64), z3.BitVec('b', 64)
    ctrs = [z3.BitVec('ctr%d' % i, 64) for i in range(3)]
    if start == 'inv':
        ex.assumptions += [inv(cap, elen, written0, b0)] + [z3.ULT(c, 1 << 62) for c in ctrs] + list(LAYOUT['extra_pc'])
    wfn, ffn = mlw_fn(prog, 'write'), mlw_fn(prog, 'flush')
    ctor = prog.find_impl_method('with_ending', 'MultiLineWriter<T>')
    histories = [0]

    def snapshot(cell):
        v = cell.v
        bwv = v.fields[FI('inner')]
        return v.fields[FI('written')].t, v.fields[FI('capacity')].t, bwv.state[2]

    def entry(ex):
        if start == 'inv':
            cell = WriterState(ex, cap, elen, written0, b0, ctrs).cell
        else:
            w = Native('EnvWriter', {'faults': True}, fresh_id())
            end = Str((Atom('ending', elen),), 'str')
            mlw = ex.call(ctor, [w, Int(cap, 'usize'), end])
            cell = Cell(mlw, 'mlw')
        ex.out['start'] = start
        ops = []
        ex.out['ops'] = ops
        for i in range(K if opseq is None else len(opseq)):
            if opseq is None:
                kind = ex.nondet(3, 'op')      # 0 write, 1 flush, 2 stop
            else:
                kind = 0 if opseq[i] == 'w' else 1
            if kind == 2:
                break
            _, _, pre = snapshot(cell)
            pre_sym = atoms_of(('content', pre.prefix_bytes, pre.chunks), None)
            b = pre.total()
            ev0 = len(ex.events)
            status, result = 'ok', None
            try:
                if kind == 0:
                    ops.append(('write', i))
                    result = ex.call(wfn, [Ref(cell, (), True), Str((Atom('m%d' % i, mlens[i]),), 'bytes')])
                else:
                    ops.append(('flush', i))
                    result = ex.call(ffn, [Ref(cell, (), True)])
            except Unwinding as u:
                status, result = 'panic', u.payload
            wire = [e for e in ex.events[ev0:] if e[0] == 'wire']
            ops[-1] = ops[-1] + (status, 'ok' if is_variant(result, 'Ok') else 'err')
            StepChecker(ex, 'write' if kind == 0 else 'flush', cap, elen, b, pre_sym, mlens[i] if kind == 0 else None,
                        'm%d' % i, label='step %d' % i).run(result, status, wire, snapshot(cell) if status == 'ok' else None,
                                                           findings, obligations, check_inv=False)
            if status == 'panic':
                return 'panic'
        if with_drop:
            _, _, pre = snapshot(cell)
            pre_sym = atoms_of(('content', pre.prefix_bytes, pre.chunks), None)
            b = pre.total()
            ev0 = len(ex.events)
            v = cell.v
            cell.v = MOVED
            ops.append(('drop', len(ops)))
            status = 'ok'
            try:
                ex.drop_value(v)
            except Unwinding as u:
                status = 'panic'
            wire = [e for e in ex.events[ev0:] if e[0] == 'wire']
            StepChecker(ex, 'drop', cap, elen, b, pre_sym, None, label='final drop').run(
                UNIT, status, wire, (None, None, Content()), findings, obligations, check_inv=False)
        return 'done'

    def on_path(ex, result, status):
        histories[0] += 1
        if status == 'panic':
            findings.append({'prop': 'C20', 'clause': 'no-panic', 'detail': 'panic %r' % (result,), 'neg': z3.BoolVal(True),
                             'pc': list(ex.pc), 'events': list(ex.events), 'op': 'ctor', 'label': 'ctor', 'trail': []})

    if split_depth is not None:
        ex.enumerating = True
        pref, done = ex.enumerate_prefixes(entry, split_depth)
        return pref + done
    ex.run(entry, on_path, prefix=prefix)
    for f in findings:
        f.setdefault('source', 'bmc')
    ex.stats.backend = dict(ex.smt.counts)
    ex.stats.backend_time = dict(ex.smt.time)
    return findings, {'histories': histories[0], 'obligations': obligations[0], 'stats': [ex.stats], 'K': K, 'fault_budget': fault_budget}


def model_values(m, names=('cap', 'elen', 'written', 'b', 'mlen')):
    out = {}
    if m is None:
        return out
    for n in names:
        out[n] = m.eval(z3.BitVec(n, 64), model_completion=True).as_long()
    return out


# ------------------------------------------------------------------------------------
# stub differential: the BufWriter model vs the real std type (table from `replay model-diff`)
# ------------------------------------------------------------------------------------

def bufwriter_model_diff(prog, table):
    """Run the Python BufWriter stub concretely on every row of the native table. Returns (#rows, mismatches)."""
    max_len = table['max_len']
    mismatches = []
    rows = table['rows']
    ex = make_explorer(prog)
    for row in rows:
        cap, ops, faults = row['cap'], row['ops'], row['faults']
        got = {}

        def entry(ex):
            ex.fault_script = list(faults)
            inner = Cell(Native('EnvWriter', {'faults': True}, fresh_id()), 'env-writer')
            cell = Cell(new_bufwriter(mk_int(cap, 'usize'), inner), 'bw')
            res = []
            marks = []
            for i, o in enumerate(ops):
                marks.append(len(ex.events))
                if o <= max_len:
                    data = Str((bytes([97 + i % 26]) * o,), 'bytes')
                    r = env_io.bw_write(ex, [Ref(cell, (), True), data], 'diff')
                    res.append('ok%d' % r.fields[0].concrete() if is_variant(r, 'Ok') else 'err')
                else:
                    r = env_io.bw_flush(ex, [Ref(cell, (), True)], 'diff')
                    res.append('ok' if is_variant(r, 'Ok') else 'err')
            marks.append(len(ex.events))
            v = cell.v
            cell.v = MOVED
            ex.drop_value(v)
            marks.append(len(ex.events))
            got['res'] = res
            atts = []
            for k in range(len(marks) - 1):
                for ev in ex.events[marks[k]:marks[k + 1]]:
                    if ev[0] != 'wire':
                        continue
                    kind, prefix, chunks = ev[1]
                    data = b''.join(b''.join(p for p in c.norm()) for c in chunks)
                    atts.append([k, data.decode('latin1'), ev[3] == 'ok'])
            got['attempts'] = atts
            return None

        def on_path(ex, result, status):
            got['status'] = status

        ex.trail = []
        ex.run(entry, on_path)
        if got.get('status') != 'ok' or got.get('res') != row['res'] or got.get('attempts') != row['attempts']:
            mismatches.append({'row': row, 'model': got})
    ex.fault_script = None
    return len(rows), mismatches


# ------------------------------------------------------------------------------------
# counterexample -> native scenario
# ------------------------------------------------------------------------------------

def ending_for(n):
    if n == 0:
        return ''
    if n == 1:
        return '\n'
    if n == 2:
        return '\r\n'
    return '#' * (n - 1) + '\n'


def scenario_from_finding(f, K):
    """Turn a BMC finding into a replayable writer scenario (small concrete sizes)."""
    cap, elen = z3.BitVec('cap', 64), z3.BitVec('elen', 64)
    mlens = [z3.BitVec('mlen%d' % i, 64) for i in range(K)]
    m = small_model(f['pc'] + [f['neg']], [cap, elen, z3.BitVec('b', 64)] + mlens)
    if m is None:
        return None
    g = lambda t: m.eval(t, model_completion=True).as_long()
    capv, elenv = g(cap), g(elen)
    if capv > (1 << 24) or elenv > 4096:
        return None
    ops = []
    pre_attempts = 0
    if f.get('start') in ('inv', 'inv1'):
        bv_, wv_ = g(z3.BitVec('b', 64)), g(z3.BitVec('written', 64))
        if bv_ > 0:
            if bv_ <= elenv or bv_ > (1 << 24):
                return None
            ops.append({'op': 'write', 'len': bv_ - elenv})
        elif wv_ != 0:
            # the one legal desynchronisation: empty terminator, a metric of exactly `cap` bytes written through
            ops.append({'op': 'write', 'len': capv})
            pre_attempts = 1
    for o in f.get('ops') or []:
        if o[0] == 'write':
            ln = g(mlens[o[1]])
            if ln > (1 << 24):
                return None
            ops.append({'op': 'write', 'len': ln})
        elif o[0] == 'flush':
            ops.append({'op': 'flush'})
        elif o[0] == 'drop':
            ops.append({'op': 'drop'})
    # pad so that metric ids (= op indexes) line up with the symbolic names m<i>
    faults, kinds = [False] * pre_attempts, ['other'] * pre_attempts
    for ev in f['events']:
        if ev[0] != 'wire':
            continue
        faults.append(ev[3] == 'err')
        k = 'other'
        if ev[3] == 'err':
            kv = m.eval(ev[4].state[1], model_completion=True).as_long()
            k = 'interrupted' if kv == env_io.EK_INTERRUPTED else ('wouldblock' if kv == env_io.EK_WOULDBLOCK else 'other')
        kinds.append(k)
    if not ops or ops[-1]['op'] != 'drop':
        ops += [{'op': 'flush'}, {'op': 'drop'}]
    return {'kind': 'writer', 'cap': capv, 'ending': ending_for(elenv), 'ops': ops, 'faults': faults, 'fault_kinds': kinds,
            'claimed': {'prop': f['prop'], 'clause': f['clause'], 'detail': f['detail'], 'step': f['label']}}


def _bmc_job(args):
    prog, opseq, K, fault_budget, timeout_ms, seed, prefix, start = args
    t0 = time.time()
    try:
        findings, info = bmc(prog, K, fault_budget, timeout_ms, seed, opseq=opseq, prefix=prefix, start=start)
    except Unsupported as e:
        return {'opseq': opseq, 'error': str(e)}
    out = []
    seen = set()
    for f in findings:
        key = (f['prop'], f['clause'], f['label'], f['detail'])
        if key in seen:
            continue
        seen.add(key)
        sc = scenario_from_finding(f, K)
        out.append({'prop': f['prop'], 'clause': f['clause'], 'detail': f['detail'], 'label': f['label'], 'scenario': sc})
    st = info['stats'][0]
    return {'opseq': opseq, 'findings': out, 'histories': info['histories'], 'obligations': info['obligations'],
            'queries': st.queries, 'sat': st.sat, 'unsat': st.unsat, 'unknown': st.unknown, 'solver_time': st.solver_time,
            'backend': st.backend, 'functions': sorted(st.functions), 'stubs': sorted(st.stubs), 'wall': time.time() - t0,
            'cut_paths': st.cut_paths, 'steps': st.steps}


def _bmc_split_job(args):
    prog, opseq, K, fault_budget, timeout_ms, seed, depth, start = args
    try:
        return opseq, bmc(prog, K, fault_budget, timeout_ms, seed, opseq=opseq, split_depth=depth, start=start)
    except Unsupported as e:
        return opseq, {'error': str(e)}


def bmc_parallel(prog, K, fault_budget, timeout_ms=60000, seed=0, jobs=None, split_depth=12, start='init', min_len=1, only=None):
    """All op sequences over {write, flush} of length 1..K (each followed by the final drop); the decision
    tree of every sequence is cut at `split_depth` decisions and the subtrees are explored in parallel."""
    import multiprocessing as mp
    seqs = []
    for n in range(min_len, K + 1):
        for t in itertools.product('wf', repeat=n):
            if 'w' not in t and n > 1:
                continue
            seqs.append(''.join(t))
    if only is not None:
        seqs = [sq for sq in seqs if only(sq)]
    jobs = jobs or max(1, (os.cpu_count() or 4) - 1)
    ctx = mp.get_context('fork')
    with ctx.Pool(jobs) as pool:
        splits = pool.map(_bmc_split_job, [(prog, sq, K, fault_budget, timeout_ms, seed, split_depth, start) for sq in seqs], chunksize=1)
        work = []
        for sq, pref in splits:
            if isinstance(pref, dict):
                return [{'opseq': sq, 'error': pref['error']}]
            for pr in pref:
                work.append((prog, sq, K, fault_budget, timeout_ms, seed, pr, start))
        # longest sequences first
        work.sort(key=lambda w: -len(w[1]))
        res = pool.map(_bmc_job, work, chunksize=1)
    return res
