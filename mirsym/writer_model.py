"""C05/C06/C07/C19 (+ the writer part of C20): MultiLineWriter over the BufWriter stub.

Two query families, both driven by the MIR of `MultiLineWriter::{with_ending,write,flush}`:

* inductive step: one `write` / `flush` / drop from an ARBITRARY state satisfying the
  representation invariant `Inv`; all sizes are free 64-bit terms. Passing obligations
  cover histories of any length, any capacity, any terminator length, any metric length.
* bounded histories (BMC): op sequences of length <= K from the state built by
  `with_ending`'s own MIR, op kinds enumerated, every size / fault symbolic.
"""
import itertools
import json
import time
import z3

from .mirparse import Unsupported
from .values import *
from .executor import Explorer, Unwinding, PathCut
from . import stubs, env_io
from .env_io import Content, new_bufwriter, U64
from .stubs import is_variant

ISIZE_MAX = (1 << 63) - 1


class Violation:
    def __init__(self, prop, clause, detail, model_vals, scenario):
        self.prop = prop
        self.clause = clause
        self.detail = detail
        self.model = model_vals
        self.scenario = scenario

    def to_json(self):
        return {'property': self.prop, 'clause': self.clause, 'detail': self.detail, 'model': self.model,
                'scenario': self.scenario}


def bv(m, t):
    v = m.eval(t, model_completion=True)
    return v.as_long()


# ------------------------------------------------------------------------------------
# symbolic pre-state
# ------------------------------------------------------------------------------------

class WriterState:
    """Handles on the pieces of one symbolic MultiLineWriter."""

    def __init__(self, ex, cap, elen, written, b, counters=None, faults=True):
        self.cap, self.elen, self.written, self.b = cap, elen, written, b
        self.ending = Str((Atom('ending', elen),), 'Vec<u8>')
        self.inner_cell = Cell(Native('EnvWriter', {'faults': faults}, fresh_id()), 'env-writer')
        content = Content(b, ()) if b is not None else Content()
        bw = new_bufwriter(Int(cap, 'usize'), self.inner_cell, content)
        ctr = counters or [ex_fresh_u64('ctr%d' % i) for i in range(3)]
        self.counters = ctr
        metrics = Agg('struct', 'WriterMetrics', None, tuple(Int(c, 'u64') for c in ctr))
        mlw = Agg('struct', 'MultiLineWriter', None,
                  (Int(written, 'usize'), Int(cap, 'usize'), metrics, bw, self.ending))
        self.cell = Cell(mlw, 'mlw')

    def ref(self):
        return Ref(self.cell, (), True)

    def post(self, ex):
        v = self.cell.v
        written = v.fields[0].t
        cap = v.fields[1].t
        bwv = v.fields[3]
        content = bwv.state[2]
        return written, cap, content


def ex_fresh_u64(name):
    return z3.BitVec(name, 64)


def field_order_check(prog):
    """The harness builds the struct positionally: confirm declaration order from the source."""
    import re, os
    for crate, root in prog.src_roots.items():
        p = os.path.join(root, 'cadence', 'src', 'io.rs')
        if not os.path.exists(p):
            p = os.path.join(root, 'src', 'io.rs')
        if os.path.exists(p):
            txt = open(p).read()
            m = re.search(r'pub struct MultiLineWriter<T>\s*where\s*T: Write,\s*\{(.*?)\n\}', txt, re.S)
            if not m:
                raise Unsupported('MultiLineWriter struct definition not found')
            names = re.findall(r'^\s*([a-z_]+):', m.group(1), re.M)
            if names != ['written', 'capacity', 'metrics', 'inner', 'line_ending']:
                raise Unsupported('MultiLineWriter field order changed: %r' % names)
            m = re.search(r'struct WriterMetrics \{(.*?)\n\}', txt, re.S)
            names = re.findall(r'^\s*([a-z_]+):', m.group(1), re.M)
            if names != ['inner_write', 'buf_write', 'flushed']:
                raise Unsupported('WriterMetrics field order changed: %r' % names)
            return
    raise Unsupported('io.rs not found')


def inv(cap, elen, written, b):
    """Representation invariant of a MultiLineWriter whose BufWriter holds b bytes of whole lines."""
    return z3.And(
        z3.ULE(b, cap),
        z3.Or(written == b, z3.And(b == 0, written == cap)),
        z3.Or(b == 0, z3.UGE(b, elen + 1)),      # non-empty metrics: a buffered line has >= 1 + |ending| bytes
        z3.ULE(cap, ISIZE_MAX), z3.ULE(elen, ISIZE_MAX),
    )


# ------------------------------------------------------------------------------------
# the checker for one step
# ------------------------------------------------------------------------------------

def atoms_of(snap, m_atom_names):
    """Flatten a wire snapshot into a tuple of symbols: 'L', ('m',i), ('e',i), or '?'"""
    kind, prefix, chunks = snap
    out = []
    if prefix is not None:
        out.append('L')
    for c in chunks:
        for p in c.norm():
            if isinstance(p, bytes):
                out.append(('lit', p))
            else:
                out.append(p.name)
    return tuple(out)


class StepChecker:
    """Evaluates Legal (C05, C06, C07, C19) and Inv' on one finished path."""

    def __init__(self, ex, st: WriterState, op, mlen=None, mname='m'):
        self.ex, self.st, self.op, self.mlen, self.mname = ex, st, op, mlen, mname

    def run(self, result, status, findings, obligations):
        ex, st = self.ex, self.st
        cap, elen, b = st.cap, st.elen, st.b
        mlen = self.mlen
        pre_has_L = True
        wire = [e for e in ex.events if e[0] == 'wire']
        w2, cap2, content2 = st.post(ex)
        b2 = content2.total()

        def oblige(prop, clause, cond, detail):
            """cond must hold on this path; query pc ∧ ¬cond"""
            obligations[0] += 1
            c = z3.simplify(cond)
            if z3.is_true(c):
                return
            r = ex.check(z3.Not(c))
            if r == 'unsat':
                return
            if r == 'unknown':
                raise Unsupported('solver unknown on obligation %s/%s' % (prop, clause))
            m = ex.model(z3.Not(c))
            findings.append((prop, clause, detail, m, list(ex.events), self.op))

        if status == 'panic':
            oblige('C20', 'no-panic', z3.BoolVal(False), 'panic %r in %s' % (result, self.op))
            oblige('C07', 'no-panic', z3.BoolVal(False), 'panic %r in %s' % (result, self.op))
            return
        if status != 'ok':
            return

        m, e = self.mname, 'ending'
        fits_empty = z3.ULE(mlen + elen, cap) if mlen is not None else None

        # ---- C05: framing of every attempted socket write -----------------------------
        for ev in wire:
            _, snap, total, outcome, etok, how = ev
            sym = atoms_of(snap, None)
            if sym == ('L',):
                legal = z3.And(z3.UGT(b, 0), z3.ULE(b, cap))
            elif sym == ('L', m, e):
                legal = z3.ULE(b + mlen + elen, cap)
            elif sym == (m, e):
                legal = z3.ULE(mlen + elen, cap)
            elif sym == (m,):
                # alone, unmodified, unterminated: only if it cannot fit into an empty buffer
                # with its terminator; with an empty terminator `m` is itself a complete line
                legal = z3.Or(z3.UGT(mlen + elen, cap), z3.And(elen == 0, z3.ULE(mlen, cap)))
            elif sym == ('L', m):
                legal = z3.And(elen == 0, z3.ULE(b + mlen, cap))
            else:
                legal = z3.BoolVal(False)
            oblige('C05', 'framing', legal, 'socket write %r via %s' % (sym, how))
            oblige('C05', 'non-empty-write', z3.UGT(total, 0), 'empty socket write via %s' % how)

        okev = [atoms_of(ev[1], None) for ev in wire if ev[3] == 'ok']
        sent_L = sum(1 for s in okev if 'L' in s)
        sent_m = sum(1 for s in okev if m in s)
        post_sym = atoms_of(('content', content2.prefix_bytes, content2.chunks), None)
        post_has_L = 'L' in post_sym
        post_has_m = m in post_sym

        # ---- C06 / C07: conservation of what was buffered before ------------------------
        # (b == 0 means L is empty: then nothing is to be conserved)
        oblige('C07', 'no-duplicate', z3.BoolVal(sent_L <= 1 and sent_m <= 1), 'a metric was written twice: %r' % (okev,))
        if self.op == 'drop':
            pass
        elif sent_L == 0:
            oblige('C06', 'buffered-kept', z3.Or(b == 0, z3.BoolVal(post_has_L and post_sym[0] == 'L')),
                   'earlier metrics neither written nor still buffered (post content %r)' % (post_sym,))
        else:
            oblige('C06', 'buffered-once', z3.BoolVal(not post_has_L), 'earlier metrics written and still buffered')

        res_ok = is_variant(result, 'Ok')
        if self.op == 'write':
            if res_ok:
                n = result.fields[0]
                oblige('C06', 'returns-len', n.t == mlen, 'write returned Ok(n) with n != metric length')
                oblige('C06', 'accepted-exactly-once', z3.BoolVal((sent_m == 1) != post_has_m),
                       'Ok but metric is %s' % ('both written and buffered' if sent_m and post_has_m else 'neither written nor buffered'))
                if post_has_m:
                    tail = post_sym[-2:] if len(post_sym) >= 2 else post_sym
                    whole = (tail == (m, e)) and post_sym.count(m) == 1 and post_sym.count(e) == 1
                    oblige('C05', 'buffer-whole-lines', z3.Or(z3.BoolVal(whole), z3.And(elen == 0, z3.BoolVal(post_sym[-1:] == (m,)))),
                           'post buffer content %r is not whole lines' % (post_sym,))
            else:
                etok = result.fields[0]
                attempt_errs = [ev[4] for ev in wire if ev[3] == 'err']
                oblige('C07', 'error-is-sockets', z3.BoolVal(any(etok is a or (isinstance(etok, Native) and isinstance(a, Native) and etok.ident == a.ident) for a in attempt_errs)),
                       'write returned an error that is not the error of a failed socket write of this call')
                oblige('C07', 'err-not-buffered', z3.BoolVal(not post_has_m and e not in post_sym),
                       'write returned Err but (part of) its metric stays buffered: %r' % (post_sym,))
                oblige('C07', 'err-not-sent', z3.BoolVal(sent_m == 0), 'write returned Err but its metric was written')
            # ---- C19 greedy packing ---------------------------------------------------
            fits_strict = z3.ULT(mlen + elen, cap - b)
            if wire:
                oblige('C19', 'no-early-write', z3.Not(fits_strict),
                       'socket write although metric+terminator fits with room to spare (events %r)' % ([atoms_of(ev[1], None) for ev in wire],))
                fits_exact = (mlen + elen == cap - b)
                for ev in wire:
                    sym = atoms_of(ev[1], None)
                    if m not in sym:
                        oblige('C19', 'pack-in-order', z3.Not(fits_exact),
                               'earlier metrics flushed without a metric that still fit exactly (%r)' % (sym,))
        else:
            # flush / drop
            if self.op == 'flush':
                if res_ok:
                    oblige('C06', 'flush-empties', z3.And(z3.BoolVal(not post_has_L or True), b2 == 0),
                           'successful flush left bytes buffered')
                    oblige('C06', 'flush-sends-all', z3.Or(b == 0, z3.BoolVal(sent_L == 1)), 'successful flush did not write the buffered metrics')
                else:
                    etok = result.fields[0]
                    attempt_errs = [ev[4] for ev in wire if ev[3] == 'err']
                    oblige('C07', 'error-is-sockets', z3.BoolVal(any(isinstance(a, Native) and a.ident == etok.ident for a in attempt_errs)),
                           'flush returned an error that is not the error of a failed socket write of this call')
            if self.op == 'drop':
                # nothing may stay behind unless the socket refused it
                any_err = any(ev[3] == 'err' for ev in wire)
                oblige('C06', 'drop-flushes', z3.Or(b == 0, z3.BoolVal(sent_L == 1 or any_err)), 'drop did not write the buffered metrics')
            oblige('C06', 'empty-flush-silent', z3.Or(z3.UGT(b, 0), z3.BoolVal(len(wire) == 0)), 'flush of an empty buffer wrote to the socket')

        # ---- Inv' ----------------------------------------------------------------------
        if self.op != 'drop':
            obligations[0] += 1
            post_inv = z3.And(z3.ULE(b2, cap2), z3.Or(w2 == b2, z3.And(b2 == 0, w2 == cap2)), cap2 == cap)
            r = ex.check(z3.Not(post_inv))
            if r == 'sat':
                mdl = ex.model(z3.Not(post_inv))
                findings.append(('INV', 'inductive', 'representation invariant not preserved by %s' % self.op, mdl, list(ex.events), self.op))
            elif r == 'unknown':
                raise Unsupported('solver unknown on invariant')


# ------------------------------------------------------------------------------------
# drivers
# ------------------------------------------------------------------------------------

def make_explorer(prog, timeout_ms=60000, seed=0):
    ex = Explorer(prog, timeout_ms=timeout_ms, seed=seed)
    stubs.install(ex)
    env_io.install(ex)
    return ex


def mlw_fn(prog, method):
    n = prog.find_impl_method(method, 'MultiLineWriter<T>', 'Write' if method in ('write', 'flush') else None)
    if n is None:
        raise Unsupported('MultiLineWriter::%s not found in MIR' % method)
    return n


def inductive(prog, timeout_ms=60000, seed=0):
    """Base case + one inductive step per operation. Returns (findings, info)."""
    field_order_check(prog)
    findings = []
    info = {'paths': {}, 'obligations': 0, 'witness': {}}
    obligations = [0]
    stats_all = []

    cap, elen, written, b, mlen = [z3.BitVec(n, 64) for n in ('cap', 'elen', 'written', 'b', 'mlen')]
    ctrs = [z3.BitVec('ctr%d' % i, 64) for i in range(3)]
    common = [inv(cap, elen, written, b)] + [z3.ULT(c, 1 << 63) for c in ctrs]

    for op in ('write', 'flush', 'drop'):
        ex = make_explorer(prog, timeout_ms, seed)
        ex.assumptions = list(common)
        if op == 'write':
            ex.assumptions += [z3.UGE(mlen, 1), z3.ULE(mlen, ISIZE_MAX)]
        npaths = [0]
        reach = {'any': False}

        def entry(ex, op=op):
            st = WriterState(ex, cap, elen, written, b, ctrs)
            ex.out['st'] = st
            if op == 'write':
                buf = Str((Atom('m', mlen),), 'bytes')
                return ex.call(mlw_fn(prog, 'write'), [st.ref(), buf])
            if op == 'flush':
                return ex.call(mlw_fn(prog, 'flush'), [st.ref()])
            v = st.cell.v
            st.cell.v = MOVED
            ex.drop_value(v)
            st.cell.v = v if False else st.cell.v
            ex.out['dropped'] = v
            return UNIT

        def on_path(ex, result, status, op=op):
            npaths[0] += 1
            st = ex.out.get('st')
            if status == 'cut':
                return
            if op == 'drop':
                # after drop the writer is gone; evaluate on the recorded events only
                st.cell.v = Agg('struct', 'MultiLineWriter', None,
                                (Int(written, 'usize'), Int(cap, 'usize'), UNIT,
                                 new_bufwriter(Int(cap, 'usize'), st.inner_cell, Content()), st.ending))
            StepChecker(ex, st, op, mlen if op == 'write' else None).run(result, status, findings, obligations)
            reach['any'] = True

        ex.run(entry, on_path)
        info['paths'][op] = npaths[0]
        ex.stats.backend = dict(ex.smt.counts); ex.stats.backend_time = dict(ex.smt.time)
        stats_all.append(ex.stats)
        if not reach['any']:
            raise Unsupported('vacuous: no feasible path for ' + op)

    # base case: the state built by with_ending satisfies Inv (executing the constructor's MIR)
    ex = make_explorer(prog, timeout_ms, seed)
    ex.assumptions = [z3.ULE(cap, ISIZE_MAX), z3.ULE(elen, ISIZE_MAX)]
    base = {'ok': False}

    def entry0(ex):
        w = Native('EnvWriter', {'faults': True}, fresh_id())
        end = Str((Atom('ending', elen),), 'str')
        return ex.call(prog.find_impl_method('with_ending', 'MultiLineWriter<T>'), [w, Int(cap, 'usize'), end])

    def on0(ex, result, status):
        if status != 'ok':
            findings.append(('C20', 'no-panic', 'constructor: %s %r' % (status, result), None, list(ex.events), 'new'))
            return
        obligations[0] += 1
        w0 = result.fields[0].t
        c0 = result.fields[1].t
        bw = result.fields[3]
        ending = result.fields[4]
        b0 = bw.state[2].total()
        cond = z3.And(inv(c0, ending.length(), w0, b0), c0 == cap, bw.state[0].t == cap, ending.length() == elen,
                      z3.BoolVal(ending.key() == (('str', 'ending'),)))
        if ex.check(z3.Not(cond)) != 'unsat':
            findings.append(('INV', 'base', 'constructor does not establish the invariant', ex.model(z3.Not(cond)), [], 'new'))
        base['ok'] = True

    ex.run(entry0, on0)
    stats_all.append(ex.stats)
    if not base['ok']:
        raise Unsupported('vacuous: constructor path')
    info['obligations'] = obligations[0]
    info['stats'] = stats_all
    return findings, info


def model_values(m, names=('cap', 'elen', 'written', 'b', 'mlen')):
    out = {}
    if m is None:
        return out
    for n in names:
        out[n] = m.eval(z3.BitVec(n, 64), model_completion=True).as_long()
    return out
