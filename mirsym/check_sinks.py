"""C13 (socket sinks put exactly the metric bytes on the wire) and C14 (sink I/O telemetry adds up)."""
import json
import time

import z3

from . import dump, replay, atomic_sched
from . import sinks_model as sm
from .executor import Explorer, IO_ERROR_KINDS
from .mirparse import Unsupported
from .stubs import is_variant, new_atomic, arc_new
from .values import *

LEN_MAX = (1 << 47) - 1


class Ctx:
    def __init__(self, out):
        self.out = out
        self.findings = []
        self.obligations = 0
        self.paths = 0
        self.stats = []
        self.samples = []
        self.vacuity = {}

    def fail(self, ex, prop, clause, detail, neg=None, scenario=None):
        self.findings.append({'prop': prop, 'clause': clause, 'detail': detail, 'scenario': scenario,
                              'pc': list(ex.assumptions) + list(ex.pc), 'neg': neg})

    def oblige(self, ex, prop, clause, cond, detail, scenario=None):
        self.obligations += 1
        c = z3.simplify(cond) if not isinstance(cond, bool) else z3.BoolVal(cond)
        if z3.is_true(c):
            return True
        r = ex.check(z3.Not(c), important=True)
        if r == 'unsat':
            return True
        if r == 'unknown':
            raise Unsupported('solver unknown on %s/%s' % (prop, clause))
        self.fail(ex, prop, clause, detail, z3.Not(c), scenario(ex, z3.Not(c)) if scenario else None)
        return False


def mk_ex(prog, out):
    ex = Explorer(prog, timeout_ms=600000 if out.tier == 'thorough' else 60000, seed=out.seed)
    sm.install(ex)
    return ex


def payload_key(ev):
    kind, prefix, chunks = ev[2]
    out = []
    if prefix is not None:
        out.append(('str', 'L'))
    for c in chunks:
        out += list(c.key())
    # merge literals
    res = []
    for p in out:
        if isinstance(p, bytes) and res and isinstance(res[-1], bytes):
            res[-1] += p
        else:
            res.append(p)
    return tuple(res)


def kind_name(m, tok):
    kv = m.eval(tok.state[1], model_completion=True).as_long()
    inv = {v: k for k, v in IO_ERROR_KINDS.items()}
    return inv.get(kv, 'Other')


# ---------------------------------------------------------------------------------------------------------
# unbuffered sinks
# ---------------------------------------------------------------------------------------------------------

def unbuffered(ctx, prog, which, nemits):
    sink_ty = {'udp': 'UdpMetricSink', 'unix': 'UnixMetricSink'}[which]
    sock_ty = {'udp': 'UdpSocket', 'unix': 'UnixDatagram'}[which]
    ex = mk_ex(prog, ctx.out)
    lens = [z3.BitVec('len_m%d' % i, 64) for i in range(nemits)]
    ex.assumptions = [z3.ULE(l, LEN_MAX) for l in lens]
    ex.var_bounds = {'len_m%d' % i: LEN_MAX for i in range(nemits)}
    reached = {'emit_ok': 0, 'emit_err': 0, 'ctor_err': 0}

    def entry(ex):
        sock = sm.new_socket(sock_ty)
        dest = Native('AddrInput' if which == 'udp' else 'PathInput', None, fresh_id())
        ex.out['sock'], ex.out['dest'] = sock, dest
        r = ex.call(prog.find_impl_method('from', sink_ty), [dest, sock])
        if is_variant(r, 'Err'):
            return ('ctor-err', r)
        c = Cell(r.fields[0] if is_variant(r, 'Ok') else r, 'sink')
        results = []
        for i in range(nemits):
            e0 = len(ex.events)
            res = ex.call(prog.find_impl_method('emit', sink_ty, 'MetricSink'), [Ref(c), Str((Atom('m%d' % i, lens[i]),), 'str')])
            results.append((res, e0, len(ex.events)))
        st = ex.call(prog.find_impl_method('stats', sink_ty, 'MetricSink'), [Ref(c)])
        return ('ok', results, st)

    def scenario_for(i_emit, results_sofar):
        def mk(ex, neg):
            from .writer_model import small_model
            m = small_model(list(ex.assumptions) + list(ex.pc) + [neg], lens, limits=(8, 64, 1 << 17))
            if m is None or any(m.eval(l, model_completion=True).as_long() > (1 << 17) for l in lens):
                return None
            script = []
            for ev in ex.events:
                if ev[0] == 'send_to':
                    script.append('ok' if ev[4] == 'ok' else 'err:' + kind_name(m, ev[5]))
            return {'kind': 'sink', 'sink': which, 'buffered': False,
                    'lens': [m.eval(l, model_completion=True).as_long() for l in lens], 'script': script}
        return mk

    def on_path(ex, res, status):
        ctx.paths += 1
        if status == 'panic':
            ctx.fail(ex, 'C20', 'no-panic', '%s sink panicked: %r' % (which, res))
            return
        if status != 'ok':
            return
        resolves = [e for e in ex.events if e[0] == 'resolve']
        if res[0] == 'ctor-err':
            reached['ctor_err'] += 1
            if which == 'udp':
                r = resolves[0]
                e = res[1].fields[0]
                from .client_model import error_kind, find_tokens
                if r[1] == 'err':
                    ctx.oblige(ex, 'C13', 'resolver-error', error_kind(ex, prog, e) == 'IoError' and any(t.ident == r[2].ident for t in find_tokens(e)),
                               'resolver failed but the constructor did not return its error')
                else:
                    ctx.oblige(ex, 'C13', 'no-address', len(r[2]) == 0 and error_kind(ex, prog, e) == 'InvalidInput',
                               'constructor failed although the resolver yielded %d addresses' % len(r[2]))
            else:
                ctx.fail(ex, 'C13', 'ctor', 'unix sink constructor failed')
            return
        _, results, st = res
        sock, dest_in = ex.out['sock'], ex.out['dest']
        if which == 'udp':
            addrs = resolves[0][2]
            if not addrs:
                ctx.fail(ex, 'C13', 'no-address', 'constructor succeeded without any resolved address')
                return
            want_dest = addrs[0]
        else:
            want_dest = dest_in
        tot = {'bs': z3.BitVecVal(0, 64), 'ps': 0, 'bd': z3.BitVecVal(0, 64), 'pd': 0}
        for i, (r, e0, e1) in enumerate(results):
            sends = [e for e in ex.events[e0:e1] if e[0] == 'send_to']
            sc = scenario_for(i, results)
            if len(sends) != 1:
                ctx.fail(ex, 'C13', 'one-datagram-per-emit', 'emit #%d made %d send attempts' % (i, len(sends)), z3.BoolVal(True), sc(ex, z3.BoolVal(True)))
                if not sends:
                    # C14: "the counts and byte lengths of the emits that returned Ok and Err respectively" - an emit that
                    # returns without a send attempt still has to be counted
                    if is_variant(r, 'Err'):
                        tot['bd'] = tot['bd'] + lens[i]
                        tot['pd'] += 1
                    elif is_variant(r, 'Ok') and isinstance(r.fields[0], Int):
                        tot['bs'] = tot['bs'] + r.fields[0].t
                        tot['ps'] += 1
                continue
            s = sends[0]
            ctx.oblige(ex, 'C13', 'payload', payload_key(s) == (('str', 'm%d' % i),), 'datagram payload %r is not exactly the metric bytes' % (payload_key(s),), sc)
            ctx.oblige(ex, 'C13', 'socket', s[1] == sock.ident, 'datagram sent on a different socket', sc)
            ctx.oblige(ex, 'C13', 'destination', isinstance(s[3], Native) and s[3].ident == want_dest.ident,
                       'datagram sent to %r instead of the address / path given at construction' % (s[3],), sc)
            if s[4] == 'ok':
                reached['emit_ok'] += 1
                good = is_variant(r, 'Ok')
                ctx.oblige(ex, 'C13', 'returns-socket-result', good and z3.simplify(r.fields[0].t == s[5]), 'socket accepted the datagram but emit returned %r' % (r,), sc)
                tot['bs'] = tot['bs'] + s[5]
                tot['ps'] += 1
            else:
                reached['emit_err'] += 1
                good = is_variant(r, 'Err') and isinstance(r.fields[0], Native) and r.fields[0].ident == s[5].ident
                ctx.oblige(ex, 'C13', 'returns-socket-error', good, "socket refused the datagram but emit returned %r instead of the socket's error" % (r,), sc)
                tot['bd'] = tot['bd'] + s[6]
                tot['pd'] += 1
        # C14: the figures add up
        f = st.fields
        sc = scenario_for(len(results) - 1, results)
        ctx.oblige(ex, 'C14', 'packets', z3.And(f[1].t == tot['ps'], f[3].t == tot['pd']),
                   'packets_sent / packets_dropped do not equal the numbers of accepted / refused send attempts', sc)
        ctx.oblige(ex, 'C14', 'bytes', z3.And(f[0].t == tot['bs'], f[2].t == tot['bd']),
                   'bytes_sent / bytes_dropped do not equal the sizes of the accepted / refused datagrams', sc)
        if len(ctx.samples) < 4:
            ctx.samples.append({'sink': which, 'events': [repr(e[:5]) for e in ex.events if e[0] == 'send_to'], 'stats': repr(st)})

    ex.run(entry, on_path)
    ctx.stats.append(ex.stats)
    ctx.vacuity['unbuffered-' + which] = reached
    if not (reached['emit_ok'] and reached['emit_err']):
        raise Unsupported('vacuous: %s sink paths %r' % (which, reached))


# ---------------------------------------------------------------------------------------------------------
# buffered sinks: construction parameters, adapter, flush / drop
# ---------------------------------------------------------------------------------------------------------

def wm_FI(name):
    from . import writer_model
    return writer_model.FI(name)


def wm_layout(prog):
    # wm_layout_done: the struct layout is read from the current source once per run
    from . import writer_model
    writer_model.field_order_check(prog)


def find_mlw(v, depth=0):
    """Locate the MultiLineWriter inside a buffered sink value."""
    if isinstance(v, Agg):
        if v.name == 'MultiLineWriter':
            return v
        for f in v.fields:
            r = find_mlw(f, depth + 1)
            if r is not None:
                return r
    if isinstance(v, Native) and v.rty == 'Mutex':
        return find_mlw(v.state.v, depth + 1)
    return None


def buffered(ctx, prog, which):
    sink_ty = {'udp': 'BufferedUdpMetricSink', 'unix': 'BufferedUnixMetricSink'}[which]
    sock_ty = {'udp': 'UdpSocket', 'unix': 'UnixDatagram'}[which]
    cap = z3.BitVec('cap', 64)
    mlen = z3.BitVec('len_m0', 64)
    reached = {'default': 0, 'explicit': 0, 'sent_in_emit': 0, 'sent_in_flush': 0, 'sent_in_drop': 0}
    for ctor in ('from', 'with_capacity'):
        ex = mk_ex(prog, ctx.out)
        ex.assumptions = [z3.ULE(mlen, LEN_MAX), z3.UGE(mlen, 1), z3.ULE(cap, LEN_MAX)]
        ex.var_bounds = {'len_m0': LEN_MAX, 'cap': LEN_MAX}
        ex.fault_budget = None

        def entry(ex, ctor=ctor):
            sock = sm.new_socket(sock_ty)
            dest = Native('AddrInput' if which == 'udp' else 'PathInput', None, fresh_id())
            ex.out['sock'], ex.out['dest'] = sock, dest
            args = [dest, sock] + ([Int(cap, 'usize')] if ctor == 'with_capacity' else [])
            r = ex.call(prog.find_impl_method(ctor, sink_ty), args)
            if is_variant(r, 'Err'):
                return ('ctor-err', r)
            sink = r.fields[0] if is_variant(r, 'Ok') else r
            ex.out['mlw0'] = find_mlw(sink)
            c = Cell(sink, 'sink')
            e0 = len(ex.events)
            r1 = ex.call(prog.find_impl_method('emit', sink_ty, 'MetricSink'), [Ref(c), Str((Atom('m0', mlen),), 'str')])
            e1 = len(ex.events)
            mode = ex.nondet(4, 'then')
            e2 = None
            if mode in (2, 3):
                # a first flush (which may fail), then a second flush / the drop: whatever is still buffered must be attempted again
                ex.call(prog.find_impl_method('flush', sink_ty, 'MetricSink'), [Ref(c)])
                e2 = len(ex.events)
            if mode in (0, 2):
                r2 = ex.call(prog.find_impl_method('flush', sink_ty, 'MetricSink'), [Ref(c)])
                how = 'flush'
            else:
                v = c.v
                c.v = MOVED
                ex.drop_value(v)
                r2, how = UNIT, 'drop'
            st = None
            if mode in (0, 2):
                st = ex.call(prog.find_impl_method('stats', sink_ty, 'MetricSink'), [Ref(c)])
            ex.out['e2'] = e2
            return ('ok', r1, e0, e1, r2, how, st)

        def on_path(ex, res, status, ctor=ctor):
            ctx.paths += 1
            if status == 'panic':
                ctx.fail(ex, 'C20', 'no-panic', 'buffered %s sink panicked: %r' % (which, res))
                return
            if status != 'ok' or res[0] != 'ok':
                return
            _, r1, e0, e1, r2, how, st = res
            mlw = ex.out['mlw0']
            if mlw is None:
                ctx.fail(ex, 'C13', 'buffered-structure', 'no MultiLineWriter found inside the buffered sink')
                return
            want_cap = cap if ctor == 'with_capacity' else z3.BitVecVal(512, 64)
            reached['explicit' if ctor == 'with_capacity' else 'default'] += 1
            bw = mlw.fields[wm_FI('inner')]
            ending = mlw.fields[wm_FI('line_ending')]
            for prop in ('C13', 'C05'):
                ctx.oblige(ex, prop, 'capacity', z3.And(mlw.fields[wm_FI('capacity')].t == want_cap, bw.state[0].t == want_cap),
                           'buffered %s sink built with a capacity other than %s' % (which, 'the one given' if ctor == 'with_capacity' else '512'),
                           (lambda ex_, neg: {'kind': 'sink', 'sink': 'buffered-default-capacity'}) if ctor == 'from' else None)
                ctx.oblige(ex, prop, 'terminator', ending.key() == (b'\n',), 'line terminator is %r, not a single newline' % (ending,))
            sock = ex.out['sock']
            resolves = [e for e in ex.events if e[0] == 'resolve']
            want_dest = resolves[0][2][0] if which == 'udp' else ex.out['dest']
            sends = [e for e in ex.events if e[0] == 'send_to']
            allowed = ((('str', 'm0'),), (('str', 'm0'), b'\n'))
            okb, okp, errb, errp = z3.BitVecVal(0, 64), 0, z3.BitVecVal(0, 64), 0
            for s in sends:
                ctx.oblige(ex, 'C13', 'payload', payload_key(s) in allowed, 'datagram payload %r is not the metric (+ newline)' % (payload_key(s),))
                ctx.oblige(ex, 'C13', 'socket', s[1] == sock.ident, 'datagram sent on a different socket')
                ctx.oblige(ex, 'C13', 'destination', isinstance(s[3], Native) and s[3].ident == want_dest.ident, 'datagram sent to the wrong address')
                if s[4] == 'ok':
                    okb, okp = okb + s[5], okp + 1
                else:
                    errb, errp = errb + s[6], errp + 1
            in_emit = [e for e in ex.events[e0:e1] if e[0] == 'send_to']
            after = [e for e in ex.events[e1:] if e[0] == 'send_to']
            if in_emit:
                reached['sent_in_emit'] += 1
            if after:
                reached['sent_in_' + how] += 1
            # "send what remains when flushed or dropped": an accepted metric not sent during its emit must be attempted now
            if is_variant(r1, 'Ok') and not any(s[4] == 'ok' for s in in_emit):
                ctx.oblige(ex, 'C13', 'remainder-sent-on-' + how, len(after) >= 1, 'accepted metric still buffered but %s sent nothing' % how)
                ctx.oblige(ex, 'C06', 'remainder-sent-on-' + how, len(after) >= 1, 'accepted metric still buffered but %s sent nothing' % how)
            # the write adapter hands the socket's verdict through: a flush whose datagram was refused returns that error,
            # a flush whose datagrams were all accepted returns Ok (C07: "either returns Ok or returns the socket's error")
            if how == 'flush':
                start = ex.out.get('e2') if ex.out.get('e2') is not None else e1
                fl = [e for e in ex.events[start:] if e[0] == 'send_to']
                # (an Interrupted attempt is retried by BufWriter: what counts is the last attempt of this flush)
                bad = [fl[-1]] if fl and fl[-1][4] == 'err' else []
                natsc = (lambda ex_, neg: {'kind': 'sink', 'sink': 'udp-buffered-refused'}) if which == 'udp' else (lambda ex_, neg: {'kind': 'sink', 'sink': 'unix-buffered-wouldblock'})
                for prop in ('C13', 'C07'):
                    if bad:
                        good = is_variant(r2, 'Err') and isinstance(r2.fields[0], Native) and r2.fields[0].ident == bad[-1][5].ident
                        ctx.oblige(ex, prop, 'flush-returns-socket-error', bool(good), 'buffered %s sink: the socket refused a datagram during flush but flush returned %r' % (which, r2), natsc)
                    elif fl:
                        ctx.oblige(ex, prop, 'flush-returns-socket-result', bool(is_variant(r2, 'Ok')), 'buffered %s sink: every datagram was accepted but flush returned %r' % (which, r2))
            e2 = ex.out.get('e2')
            if e2 is not None and is_variant(r1, 'Ok') and not any(s[4] == 'ok' for s in ex.events[e0:e2] if s[0] == 'send_to'):
                # nothing has been delivered yet (the first flush failed): the second flush / the drop must try again
                again = [e for e in ex.events[e2:] if e[0] == 'send_to']
                retry_sc = lambda ex_, neg: {'kind': 'sink', 'sink': 'unix-buffered-retry'}
                for prop in ('C13', 'C06'):
                    ctx.oblige(ex, prop, 'remainder-sent-after-failed-flush', len(again) >= 1,
                               'buffered %s sink: after a failed flush the accepted metric is still buffered but the following %s sent nothing' % (which, how), retry_sc)
            if st is not None:
                f = st.fields
                stsc = (lambda ex_, neg: {'kind': 'sink', 'sink': 'unix-buffered-wouldblock'}) if which == 'unix' else None
                ctx.oblige(ex, 'C14', 'packets', z3.And(f[1].t == okp, f[3].t == errp), 'buffered sink: packet counters do not match the send attempts', stsc)
                ctx.oblige(ex, 'C14', 'bytes', z3.And(f[0].t == okb, f[2].t == errb), 'buffered sink: byte counters do not match the datagram sizes', stsc)

        ex.run(entry, on_path)
        ctx.stats.append(ex.stats)
    ctx.vacuity['buffered-' + which] = reached
    if not (reached['default'] and reached['explicit'] and reached['sent_in_emit'] and reached['sent_in_flush'] and reached['sent_in_drop']):
        raise Unsupported('vacuous: buffered %s sink paths %r' % (which, reached))


def spy_default(ctx, prog):
    ex = mk_ex(prog, ctx.out)
    seen = [0]

    def entry(ex):
        return ex.call(prog.find_impl_method('new', 'BufferedSpyMetricSink'), [])

    def on_path(ex, res, status):
        ctx.paths += 1
        if status != 'ok':
            ctx.fail(ex, 'C20', 'no-panic', 'BufferedSpyMetricSink::new: %s' % status)
            return
        mlw = find_mlw(res.fields[1])
        seen[0] += 1
        if mlw is None:
            ctx.fail(ex, 'C05', 'buffered-structure', 'no MultiLineWriter inside BufferedSpyMetricSink')
            return
        ctx.oblige(ex, 'C05', 'capacity', z3.And(mlw.fields[wm_FI('capacity')].t == 512, mlw.fields[wm_FI('inner')].state[0].t == 512), 'spy sink default capacity is not 512',
                   lambda ex_, neg: {'kind': 'sink', 'sink': 'buffered-default-capacity'})
        ctx.oblige(ex, 'C05', 'terminator', mlw.fields[wm_FI('line_ending')].key() == (b'\n',), 'spy sink terminator is not a newline')

    ex.run(entry, on_path)
    ctx.stats.append(ex.stats)
    if not seen[0]:
        raise Unsupported('vacuous: spy sink')


# ---------------------------------------------------------------------------------------------------------
# C14 kernels: SocketStats::update from an arbitrary counter state, and under concurrency
# ---------------------------------------------------------------------------------------------------------

def stats_value(vals, labels=('bytes_sent', 'packets_sent', 'bytes_dropped', 'packets_dropped')):
    atoms = [new_atomic(Int(v, 'u64'), l) for v, l in zip(vals, labels)]
    arcs = tuple(ArcV(Cell(ArcInner(Cell(a, 'arc-pointee'), 1, l), l)) for a, l in zip(atoms, labels))
    return Agg('struct', 'SocketStats', None, arcs), atoms


def stats_field_order(prog):
    import os, re
    for crate, root in prog.src_roots.items():
        p = os.path.join(root, 'cadence', 'src', 'sinks', 'core.rs')
        if os.path.exists(p):
            m = re.search(r'pub struct SocketStats \{(.*?)\n\}', open(p).read(), re.S)
            names = re.findall(r'^\s*([a-z_]+):', m.group(1), re.M)
            if names != ['bytes_sent', 'packets_sent', 'bytes_dropped', 'packets_dropped']:
                raise Unsupported('SocketStats field order changed: %r' % names)
            return
    raise Unsupported('sinks/core.rs not found')


def update_kernel(ctx, prog):
    stats_field_order(prog)
    upd = prog.find_impl_method('update', 'SocketStats')
    c = [z3.BitVec('c%d' % i, 64) for i in range(4)]
    w, ln = z3.BitVec('w', 64), z3.BitVec('len', 64)
    for outcome in ('ok', 'err'):
        ex = mk_ex(prog, ctx.out)
        n = [0]

        def entry(ex, outcome=outcome):
            sv, atoms = stats_value(c)
            ex.out['atoms'] = atoms
            cell = Cell(sv, 'stats')
            tok = sm.io_error(ex, 'given')
            ex.out['tok'] = tok
            arg = sm.ok(Int(w, 'usize')) if outcome == 'ok' else sm.err(tok)
            return ex.call(upd, [Ref(cell), arg, Int(ln, 'usize')])

        def on_path(ex, res, status, outcome=outcome):
            ctx.paths += 1
            n[0] += 1
            if status != 'ok':
                ctx.fail(ex, 'C20', 'no-panic', 'SocketStats::update: %s %r' % (status, res))
                return
            a = [x.state.v.t for x in ex.out['atoms']]
            if outcome == 'ok':
                want = [c[0] + w, c[1] + 1, c[2], c[3]]
                same = is_variant(res, 'Ok') and z3.simplify(res.fields[0].t == w)
            else:
                want = [c[0], c[1], c[2] + ln, c[3] + 1]
                same = is_variant(res, 'Err') and isinstance(res.fields[0], Native) and res.fields[0].ident == ex.out['tok'].ident
            ctx.oblige(ex, 'C14', 'update-' + outcome, z3.And(*[x == y for x, y in zip(a, want)]),
                       'update(%s) does not add exactly (written,1,0,0) / (0,0,len,1) to the counters' % outcome)
            ctx.oblige(ex, 'C14', 'update-passes-result', same, 'update does not return its argument unchanged')

        ex.run(entry, on_path)
        ctx.stats.append(ex.stats)
        if not n[0]:
            raise Unsupported('vacuous: update kernel')


def update_concurrent(ctx, prog, nthreads):
    """`nthreads` threads each calling update once (every Ok/Err combination), all interleavings of their atomic ops."""
    upd = prog.find_impl_method('update', 'SocketStats')
    c = [z3.BitVec('c%d' % i, 64) for i in range(4)]
    labels = ('bytes_sent', 'packets_sent', 'bytes_dropped', 'packets_dropped')
    import itertools
    checked = 0
    for combo in itertools.product(('ok', 'err'), repeat=nthreads):
        if list(combo) != sorted(combo):
            continue
        ex = mk_ex(prog, ctx.out)
        progs = []
        ws = [z3.BitVec('w%d' % i, 64) for i in range(nthreads)]
        ls = [z3.BitVec('l%d' % i, 64) for i in range(nthreads)]

        def entry(ex, combo=combo):
            sv, atoms = stats_value(c)
            cell = Cell(sv, 'stats')
            names = {a.ident: l for a, l in zip(atoms, labels)}
            out = []
            for i, oc in enumerate(combo):
                arg = sm.ok(Int(ws[i], 'usize')) if oc == 'ok' else sm.err(sm.io_error(ex, 't%d' % i))
                ops, _ = atomic_sched.extract_ops(ex, lambda: ex.call(upd, [Ref(cell), arg, Int(ls[i], 'usize')]), lambda a: names[a.ident])
                out.append(ops)
            return out

        def on_path(ex, res, status):
            ctx.paths += 1
            if status == 'ok':
                progs.append((res, list(ex.pc)))

        ex.run(entry, on_path)
        ctx.stats.append(ex.stats)
        if not progs:
            raise Unsupported('update has no normal path for outcomes %r' % (combo,))
        init = {l: v for l, v in zip(labels, c)}
        add = {l: z3.BitVecVal(0, 64) for l in labels}
        for i, oc in enumerate(combo):
            if oc == 'ok':
                add['bytes_sent'] = add['bytes_sent'] + ws[i]
                add['packets_sent'] = add['packets_sent'] + 1
            else:
                add['bytes_dropped'] = add['bytes_dropped'] + ls[i]
                add['packets_dropped'] = add['packets_dropped'] + 1
        # one query per path of the kernel (a path = one outcome of its data-dependent branches, e.g. on the error kind)
        for threads, pathc in progs:
            t0 = time.time()
            res, info = atomic_sched.interleave(threads, init, lambda mem: z3.And(*[mem[l] == init[l] + add[l] for l in labels]), extra=pathc,
                                                timeout_ms=900000 if ctx.out.tier == 'thorough' else 120000)
            ctx.obligations += 1
            ctx.sched_queries = getattr(ctx, 'sched_queries', 0) + 1
            ctx.sched_time = getattr(ctx, 'sched_time', 0.0) + time.time() - t0
            if res == 'unknown':
                raise Unsupported('solver unknown on the interleaving query')
            if res == 'sat':
                m = info['model']
                sc = {'kind': 'sink', 'sink': 'stats-concurrent', 'threads': nthreads, 'outcomes': list(combo), 'schedule': info['schedule'],
                      'ops': [[repr(o) for o in t] for t in threads]}
                ctx.findings.append({'prop': 'C14', 'clause': 'concurrent-exact', 'scenario': sc, 'pc': [], 'neg': None,
                                     'detail': 'with %d concurrent emitters (%s) there is an interleaving (schedule %r of the atomic ops %r) after which the counters are not the sums'
                                               % (nthreads, ','.join(combo), info['schedule'], [[repr(o) for o in t] for t in threads])})
            if not atomic_sched.reachable(threads, init, extra=pathc):
                raise Unsupported('vacuous: interleaving model has no complete schedule')
        checked += 1
    ctx.vacuity['concurrent-update'] = {'threads': nthreads, 'outcome_combinations': checked}


ASSUMPTIONS = [
    'sockets, addresses, the resolver and the kernel are environment: one send_to call = one all-or-nothing datagram attempt, result Ok(n<=size) or Err(e)',
    'std::sync::Mutex gives mutual exclusion (sequential use here; concurrency is C12), Arc/atomics have their documented semantics; SC interleaving of atomic RMWs for the concurrent-counters query',
    'BufWriter stub as in C05 (validated there); MultiLineWriter behaviour itself is C05-C07',
]


def run(out, replay_path=None):
    pid = out.pid
    if replay_path:
        sc = json.load(open(replay_path))
        res = replay.run_scenarios([sc])[0]
        hit = [v for v in res.get('violations', []) if v['prop'] == pid]
        out.evidence = {'coverage': {'traces_validated_against_impl': 1, 'samples': [sc], 'explanation': 'replay only'}}
        if hit:
            out.violations.append({'key': None, 'what': hit[0]['detail'], 'scenario': sc, 'native': hit})
        return
    prog, dinfo = dump.dump_mir()
    wm_layout(prog)
    ctx = Ctx(out)
    thorough = out.tier == 'thorough'
    for which in ('udp', 'unix'):
        unbuffered(ctx, prog, which, 3 if thorough else 2)
        buffered(ctx, prog, which)
    spy_default(ctx, prog)
    update_kernel(ctx, prog)
    update_concurrent(ctx, prog, 2)
    if thorough:
        update_concurrent(ctx, prog, 3)
    try:
        from . import queue_model
        queue_model.stats_delegation(ctx, prog)
    except ImportError:
        pass
    from .check_writer import _stats_sum
    tot, st, fns, stubs_, steps, paths, backend = _stats_sum(ctx.stats)
    st += getattr(ctx, 'sched_time', 0.0)
    tot['total'] += getattr(ctx, 'sched_queries', 0) * 2
    mine = [f for f in ctx.findings if f['prop'] == pid]
    confirmed, replayed = [], 0
    todo, seen_sc = [], set()
    for f in ctx.findings:
        if f['scenario'] is None:
            continue
        k = json.dumps(f['scenario'], sort_keys=True, default=str)
        if k not in seen_sc:
            seen_sc.add(k)
            todo.append(f)
    todo = todo[:60]
    if todo:
        outs = replay.run_scenarios([f['scenario'] for f in todo])
        replayed = len(todo)
        for f, o in zip(todo, outs):
            hit = [v for v in o.get('violations', []) if v['prop'] == pid]
            if hit:
                confirmed.append((f, hit))
    out.evidence = {
        'level': 'model_checking', 'assumptions': ASSUMPTIONS,
        'coverage': {
            'states': ctx.paths, 'transitions': steps, 'traces_validated_against_impl': replayed,
            'obligations': ctx.obligations, 'discharged': ctx.obligations - len(ctx.findings),
            'queries': tot, 'evaluations': tot['total'], 'distinct_nontrivial': ctx.paths,
            'rule': 'one case = one feasible symbolic path of a sink constructor + emits (+ flush / drop), metric lengths, capacities, '
                    'socket outcomes and resolver results symbolic; plus one interleaving query per outcome combination of concurrent updates',
            'solver_time_s': round(st, 2), 'solver_backends': backend, 'functions_encoded': sorted(fns), 'stubs': sorted(stubs_),
            'bounds': {'emits_per_history': 3 if thorough else 2, 'concurrent_updaters': 3 if thorough else 2,
                       'outside': 'what the kernel does with a sendto; datagram size limits; more emitters than the bound'},
            'vacuity': ctx.vacuity, 'mir': dinfo, 'samples': ctx.samples or [{'note': 'none'}],
        },
    }
    if pid == 'C13' and not confirmed:
        # "datagrams of the form described in C05": the line writer's framing obligations are part of C13's claim
        from . import check_writer
        from .checks import Outcome
        sub = Outcome('C05', out.tier, out.seed)
        check_writer.run(sub, with_sinks=False)
        cw = sub.evidence.get('coverage', {})
        out.evidence['coverage']['writer_part'] = {k: cw.get(k) for k in ('obligations', 'queries', 'inductive', 'bounds')}
        for k in ('obligations', 'discharged', 'states', 'transitions', 'evaluations', 'distinct_nontrivial', 'traces_validated_against_impl'):
            out.evidence['coverage'][k] = out.evidence['coverage'].get(k, 0) + int(cw.get(k, 0) or 0)
        for v in sub.violations:
            v = dict(v)
            v['what'] = 'buffered sink datagram form (C05): ' + v['what']
            out.violations.append(v)
        out.inconclusive += sub.inconclusive
        if out.violations:
            return
    if confirmed:
        seen = set()
        for f, hit in confirmed:
            if hit[0]['clause'] in seen:
                continue
            seen.add(hit[0]['clause'])
            out.violations.append({'key': 'sink:%s' % hit[0]['clause'], 'what': '%s: %s' % (hit[0]['clause'], hit[0]['detail']),
                                   'scenario': f['scenario'], 'native': hit})
        return
    if mine:
        out.inconclusive.append('the solver reports a violation of %s (%s: %s) but it was not reproduced natively' % (pid, mine[0]['clause'], mine[0]['detail'][:300]))
    elif ctx.findings:
        out.notes.append('obligations of other properties are violated on this tree: %s' % sorted(set((f['prop'], f['clause']) for f in ctx.findings)))
