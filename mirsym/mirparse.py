"""Parser for rustc's textual MIR (`-Zunpretty=mir`).

Only the constructs that occur in the dumps of `cadence`, `cadence-macros` and the
`macro_driver` crate are understood; anything else raises `Unsupported`, which the
checks turn into exit status 2 (INCONCLUSIVE) - never into a pass or a violation.
"""
import re
from dataclasses import dataclass, field
from typing import Any, Dict, List, Optional, Tuple


class Unsupported(Exception):
    pass


# ----------------------------------------------------------------------------
# small lexical helpers
# ----------------------------------------------------------------------------

OPEN = {'(': ')', '[': ']', '{': '}', '<': '>'}
CLOSE = {v: k for k, v in OPEN.items()}


def skip_string(s: str, i: int) -> int:
    """s[i] == '"' ; return index just after the closing quote."""
    assert s[i] == '"'
    i += 1
    while i < len(s):
        c = s[i]
        if c == '\\':
            i += 2
            continue
        if c == '"':
            return i + 1
        i += 1
    raise Unsupported('unterminated string literal: ' + s[:80])


def skip_char_or_lifetime(s: str, i: int) -> int:
    """s[i] == "'" ; char literal ('x', '\\n', '\\u{..}') or a lifetime ('a, '_)."""
    assert s[i] == "'"
    if i + 1 < len(s) and s[i + 1] == '\\':
        j = s.find("'", i + 2)
        # '\'' : the found quote is the escaped one
        if j == i + 2:
            j = s.find("'", i + 3)
        return j + 1
    if i + 2 < len(s) and s[i + 2] == "'":
        return i + 3
    # multibyte char literal like 'é' is also s[i+2]=="'" in python str; so: lifetime
    j = i + 1
    while j < len(s) and (s[j].isalnum() or s[j] == '_'):
        j += 1
    return j


def split_top(s: str, sep: str = ',') -> List[str]:
    """Split at top-level separators, respecting brackets, strings, chars."""
    out, depth, i, start = [], 0, 0, 0
    n = len(s)
    while i < n:
        c = s[i]
        if c == '"':
            i = skip_string(s, i)
            continue
        if c == "'":
            i = skip_char_or_lifetime(s, i)
            continue
        if c == 'b' and i + 1 < n and s[i + 1] == '"' and (i == 0 or not (s[i - 1].isalnum() or s[i - 1] == '_')):
            i = skip_string(s, i + 1)
            continue
        if c == '-' and i + 1 < n and s[i + 1] == '>':
            i += 2
            continue
        if c == '=' and i + 1 < n and s[i + 1] == '>':
            i += 2
            continue
        if c in OPEN:
            depth += 1
        elif c in CLOSE:
            depth -= 1
        elif c == sep and depth == 0:
            out.append(s[start:i].strip())
            start = i + 1
        i += 1
    last = s[start:].strip()
    if last:
        out.append(last)
    return out


def match_close(s: str, i: int) -> int:
    """s[i] is an opening bracket; return the index of its matching closer."""
    depth = 0
    n = len(s)
    while i < n:
        c = s[i]
        if c == '"':
            i = skip_string(s, i)
            continue
        if c == "'":
            i = skip_char_or_lifetime(s, i)
            continue
        if c == 'b' and i + 1 < n and s[i + 1] == '"' and (i == 0 or not (s[i - 1].isalnum() or s[i - 1] == '_')):
            i = skip_string(s, i + 1)
            continue
        if c in '-=' and i + 1 < n and s[i + 1] == '>':
            i += 2
            continue
        if c in OPEN:
            depth += 1
        elif c in CLOSE:
            depth -= 1
            if depth == 0:
                return i
        i += 1
    raise Unsupported('unbalanced: ' + s[:120])


def match_open_from_end(s: str) -> int:
    """s ends with ')' ; return the index of the matching '(' scanning left→right."""
    # scan left to right recording top-level paren groups; the last group that
    # closes at len(s)-1 is the one wanted.
    i, n = 0, len(s)
    stack = []
    last_open = None
    while i < n:
        c = s[i]
        if c == '"':
            i = skip_string(s, i)
            continue
        if c == "'":
            i = skip_char_or_lifetime(s, i)
            continue
        if c == 'b' and i + 1 < n and s[i + 1] == '"' and (i == 0 or not (s[i - 1].isalnum() or s[i - 1] == '_')):
            i = skip_string(s, i + 1)
            continue
        if c in '-=' and i + 1 < n and s[i + 1] == '>':
            i += 2
            continue
        if c in OPEN:
            stack.append((c, i))
        elif c in CLOSE:
            o, oi = stack.pop()
            if i == n - 1 and c == ')':
                last_open = oi
        i += 1
    if last_open is None:
        raise Unsupported('no call parens: ' + s[:120])
    return last_open


# ----------------------------------------------------------------------------
# AST
# ----------------------------------------------------------------------------

@dataclass(frozen=True)
class Place:
    local: int
    proj: Tuple[Any, ...] = ()   # ('deref',) ('field', n, ty) ('downcast', name) ('index', local) ('cindex', n, of, from_end)


@dataclass(frozen=True)
class Operand:
    kind: str            # 'copy' | 'move' | 'const'
    place: Optional[Place] = None
    const: Optional[str] = None


@dataclass
class Rvalue:
    kind: str
    args: Tuple[Any, ...] = ()


@dataclass
class Stmt:
    kind: str            # 'assign' | 'setdiscr' | 'nop'
    place: Optional[Place] = None
    rvalue: Optional[Rvalue] = None
    text: str = ''


@dataclass
class Term:
    kind: str
    text: str = ''
    # goto: target ; switch: operand, targets[(val|None, bb)] ; call: dest, callee, args, ret, unwind
    data: Dict[str, Any] = field(default_factory=dict)


@dataclass
class Block:
    name: str
    cleanup: bool
    stmts: List[Stmt]
    term: Term


@dataclass
class Func:
    name: str
    kind: str                  # 'fn' | 'const' | 'static' | 'promoted'
    arg_types: List[str]
    ret_type: str
    locals: Dict[int, str]
    blocks: Dict[str, Block]
    crate: str = ''
    header: str = ''


# ----------------------------------------------------------------------------
# places / operands / rvalues
# ----------------------------------------------------------------------------

def parse_place_at(s: str, i: int) -> Tuple[Place, int]:
    if s[i] == '_':
        j = i + 1
        while j < len(s) and s[j].isdigit():
            j += 1
        pl = Place(int(s[i + 1:j]))
    elif s[i] == '(':
        if s[i + 1] == '*':
            inner, j = parse_place_at(s, i + 2)
            if s[j] != ')':
                raise Unsupported('place deref: ' + s)
            pl = Place(inner.local, inner.proj + (('deref',),))
            j += 1
        else:
            inner, j = parse_place_at(s, i + 1)
            if s.startswith(' as ', j):
                k = s.index(')', j)
                pl = Place(inner.local, inner.proj + (('downcast', s[j + 4:k].strip()),))
                j = k + 1
            elif s[j] == '.':
                k = j + 1
                while s[k].isdigit():
                    k += 1
                fld = int(s[j + 1:k])
                if not s.startswith(': ', k):
                    raise Unsupported('place field: ' + s)
                close = match_close(s, i)
                ty = s[k + 2:close]
                pl = Place(inner.local, inner.proj + (('field', fld, ty),))
                j = close + 1
            else:
                raise Unsupported('place: ' + s)
    else:
        raise Unsupported('place: ' + s)
    # postfix index projections
    while j < len(s) and s[j] == '[':
        k = match_close(s, j)
        inside = s[j + 1:k]
        m = re.fullmatch(r'_(\d+)', inside)
        if m:
            pl = Place(pl.local, pl.proj + (('index', int(m.group(1))),))
        else:
            m = re.fullmatch(r'(-?\d+) of (\d+)', inside)
            if m:
                n = int(m.group(1))
                pl = Place(pl.local, pl.proj + (('cindex', abs(n), int(m.group(2)), n < 0),))
            else:
                raise Unsupported('index projection: ' + s)
        j = k + 1
    return pl, j


def parse_place(s: str) -> Place:
    s = s.strip()
    pl, j = parse_place_at(s, 0)
    if j != len(s):
        raise Unsupported('trailing text in place: %r' % s)
    return pl


def parse_operand(s: str) -> Operand:
    s = s.strip()
    if s.startswith('no_retag '):
        s = s[len('no_retag '):]
    if s.startswith('copy '):
        return Operand('copy', parse_place(s[5:]))
    if s.startswith('move '):
        return Operand('move', parse_place(s[5:]))
    if s.startswith('const '):
        return Operand('const', const=s[6:].strip())
    if re.match(r'^[A-Za-z_<]', s) and not re.match(r'^(copy|move|const)\b', s):
        # a bare function item used as a value (printed without `const`), e.g. `nop_error_handler`,
        # `<i64 as std::fmt::Display>::fmt`, `MetricValue::Unsigned`
        return Operand('const', const='ZeroSized: ' + s)
    raise Unsupported('operand: %r' % s)


BINOPS = {'Add', 'Sub', 'Mul', 'Div', 'Rem', 'BitAnd', 'BitOr', 'BitXor', 'Shl', 'Shr',
          'Eq', 'Ne', 'Lt', 'Le', 'Gt', 'Ge', 'AddWithOverflow', 'SubWithOverflow',
          'MulWithOverflow', 'AddUnchecked', 'SubUnchecked', 'MulUnchecked', 'Offset', 'Cmp',
          'ShlUnchecked', 'ShrUnchecked'}
UNOPS = {'Not', 'Neg', 'PtrMetadata'}


def parse_rvalue(s: str) -> Rvalue:
    s = s.strip()
    if s.startswith('no_retag '):
        s = s[len('no_retag '):]
    # casts:  OPERAND as TYPE (CastKind)
    m = re.match(r'^(copy|move|const) ', s)
    if m:
        # find top-level " as "
        parts = _split_cast(s)
        if parts is not None:
            op, ty, kind = parts
            return Rvalue('cast', (parse_operand(op), ty, kind))
        return Rvalue('use', (parse_operand(s),))
    if s.startswith('&/*tls*/ '):
        # address of a thread-local static (std's storage internals; never executed - LocalKey is stubbed)
        return Rvalue('tlsref', (s[len('&/*tls*/ '):],))
    for pre, mut in (('&raw const ', 'rawconst'), ('&raw mut ', 'rawmut'), ('&mut ', 'mut'), ('&fake shallow ', 'fake'),
                     ('&fake ', 'fake'), ('&', 'shared')):
        if s.startswith(pre):
            rest = s[len(pre):]
            if rest.startswith("'"):  # region annotation (not expected in final MIR)
                raise Unsupported('region in borrow: ' + s)
            return Rvalue('ref', (mut, parse_place(rest)))
    m = re.match(r'^([A-Za-z]+)\(', s)
    if m and s.endswith(')'):
        name = m.group(1)
        inner = s[len(name) + 1:-1]
        if name in BINOPS:
            a, b = split_top(inner)
            return Rvalue('binop', (name, parse_operand(a), parse_operand(b)))
        if name in UNOPS:
            return Rvalue('unop', (name, parse_operand(inner)))
        if name == 'discriminant':
            return Rvalue('discriminant', (parse_place(inner),))
        if name in ('Len',):
            return Rvalue('len', (parse_place(inner),))
        if name == 'CopyForDeref':
            return Rvalue('use', (Operand('copy', parse_place(inner)),))
        if name == 'ShallowInitBox':
            raise Unsupported('ShallowInitBox')
    if s.startswith('discriminant('):
        return Rvalue('discriminant', (parse_place(s[len('discriminant('):-1]),))
    # tuple aggregate
    if s.startswith('(') and s.endswith(')') and match_close(s, 0) == len(s) - 1:
        inner = s[1:-1].strip()
        if inner == '':
            return Rvalue('aggregate', ('tuple', '', None, []))
        items = split_top(inner)
        return Rvalue('aggregate', ('tuple', '', None, [parse_operand(x) for x in items]))
    # array aggregate / repeat
    if s.startswith('[') and s.endswith(']'):
        inner = s[1:-1]
        semi = split_top(inner, ';')
        if len(semi) == 2:
            return Rvalue('repeat', (parse_operand(semi[0]), semi[1]))
        items = split_top(inner)
        return Rvalue('aggregate', ('array', '', None, [parse_operand(x) for x in items]))
    # closure aggregate: {closure@file:l:c: l:c} { a: move _1 } | {closure@...}
    if s.startswith('{closure@') or s.startswith('{coroutine@'):
        close = match_close(s, 0)
        cname = s[:close + 1]
        rest = s[close + 1:].strip()
        fields = []
        if rest:
            if not (rest.startswith('{') and rest.endswith('}')):
                raise Unsupported('closure aggregate: ' + s)
            for item in split_top(rest[1:-1]):
                k, v = item.split(':', 1)
                fields.append((k.strip(), parse_operand(v)))
        return Rvalue('aggregate', ('closure', cname, None, fields))
    # struct literal  Path { f: op, .. }   (path may contain <...> generics)
    if s.endswith('}'):
        # find the top-level '{' that matches the final '}'
        idx = _find_struct_brace(s)
        if idx is not None:
            path = s[:idx].strip()
            inner = s[idx + 1:-1].strip()
            fields = []
            if inner:
                for item in split_top(inner):
                    k, v = item.split(':', 1)
                    fields.append((k.strip(), parse_operand(v)))
            return Rvalue('aggregate', ('struct', path, None, fields))
    # tuple-struct / enum variant with args:  Path(op, ..)
    if s.endswith(')'):
        o = match_open_from_end(s)
        path = s[:o].strip()
        if path and re.match(r'^[A-Za-z_<]', path):
            inner = s[o + 1:-1].strip()
            items = split_top(inner) if inner else []
            return Rvalue('aggregate', ('ctor', path, None, [parse_operand(x) for x in items]))
    # unit variant / unit struct:  Option::<T>::None
    if re.match(r'^[A-Za-z_<]', s):
        return Rvalue('aggregate', ('ctor', s, None, []))
    raise Unsupported('rvalue: %r' % s)


def _find_struct_brace(s: str) -> Optional[int]:
    i, n, depth = 0, len(s), 0
    while i < n:
        c = s[i]
        if c == '"':
            i = skip_string(s, i)
            continue
        if c == "'":
            i = skip_char_or_lifetime(s, i)
            continue
        if c in '-=' and i + 1 < n and s[i + 1] == '>':
            i += 2
            continue
        if c == '{' and depth == 0:
            if match_close(s, i) == n - 1:
                return i
            return None
        if c in OPEN:
            depth += 1
        elif c in CLOSE:
            depth -= 1
        i += 1
    return None


def _split_cast(s: str):
    """'copy _1 as u64 (IntToInt)' -> (operand, type, kind) or None"""
    if not s.endswith(')'):
        return None
    # top-level ' as ' occurrences outside brackets
    i, n, depth = 0, len(s), 0
    pos = None
    while i < n:
        c = s[i]
        if c == '"':
            i = skip_string(s, i)
            continue
        if c == "'":
            i = skip_char_or_lifetime(s, i)
            continue
        if c in '-=' and i + 1 < n and s[i + 1] == '>':
            i += 2
            continue
        if c in OPEN:
            depth += 1
        elif c in CLOSE:
            depth -= 1
        elif depth == 0 and s.startswith(' as ', i) and pos is None:
            pos = i
        i += 1
    if pos is None:
        return None
    o = match_open_from_end(s)
    kind = s[o + 1:-1]
    ty = s[pos + 4:o].strip()
    return s[:pos], ty, kind


# ----------------------------------------------------------------------------
# statements and terminators
# ----------------------------------------------------------------------------

IGNORED_STMT = ('StorageLive(', 'StorageDead(', 'nop', 'FakeRead(', 'PlaceMention(', 'AscribeUserType(',
                'Retag(', 'Coverage', 'Deinit(', 'ConstEvalCounter', 'BackwardIncompatibleDropHint')

UNWIND_RE = re.compile(
    r' -> (?:\[return: (bb\d+), unwind(?:: (bb\d+)| (continue|unreachable|terminate\([a-z]+\)))\]'
    r'|unwind(?:: (bb\d+)| (continue|unreachable|terminate\([a-z]+\)))'
    r'|(bb\d+))$')


def parse_stmt(text: str) -> Stmt:
    t = text.strip()
    assert t.endswith(';'), t
    t = t[:-1]
    for ig in IGNORED_STMT:
        if t.startswith(ig):
            return Stmt('nop', text=text)
    if t.startswith('assume('):
        return Stmt('nop', text=text)
    if t.startswith('discriminant(') and ' = ' in t:
        lhs, rhs = t.split(' = ', 1)
        return Stmt('setdiscr', parse_place(lhs[len('discriminant('):-1]), Rvalue('const', (rhs.strip(),)), text)
    if ' = ' not in t:
        raise Unsupported('statement: %r' % t)
    lhs, rhs = t.split(' = ', 1)
    return Stmt('assign', parse_place(lhs), parse_rvalue(rhs), text)


def _unwind_info(m):
    ret = m.group(1) or m.group(6)
    unwind_bb = m.group(2) or m.group(4)
    unwind_kind = m.group(3) or m.group(5)
    if unwind_bb:
        uw = ('bb', unwind_bb)
    elif unwind_kind:
        uw = (unwind_kind.split('(')[0], None)
    else:
        uw = ('continue', None)
    return ret, uw


def parse_term(text: str) -> Term:
    t = text.strip()
    assert t.endswith(';'), t
    t = t[:-1]
    if t == 'return':
        return Term('return', text)
    if t == 'resume':
        return Term('resume', text)
    if t == 'unreachable':
        return Term('unreachable', text)
    if t.startswith('unwind terminate') or t == 'abort' or t.startswith('terminate'):
        return Term('abort', text)
    if t.startswith('goto -> '):
        return Term('goto', text, {'target': t[len('goto -> '):]})
    if t.startswith('switchInt('):
        c = match_close(t, len('switchInt'))
        op = parse_operand(t[len('switchInt('):c])
        rest = t[c + 1:].strip()
        assert rest.startswith('-> [') and rest.endswith(']'), t
        targets = []
        for item in split_top(rest[4:-1]):
            k, v = item.split(':')
            k = k.strip()
            targets.append((None if k == 'otherwise' else int(k), v.strip()))
        return Term('switch', text, {'op': op, 'targets': targets})
    if t.startswith('drop('):
        c = match_close(t, 4)
        m = UNWIND_RE.search(t)
        if not m:
            raise Unsupported('drop terminator: ' + t)
        ret, uw = _unwind_info(m)
        return Term('drop', text, {'place': parse_place(t[5:c]), 'ret': ret, 'unwind': uw})
    if t.startswith('assert('):
        c = match_close(t, 6)
        inner = split_top(t[7:c])
        cond = inner[0].strip()
        neg = False
        if cond.startswith('!'):
            neg = True
            cond = cond[1:]
        rest = t[c + 1:]
        m = re.search(r'-> \[success: (bb\d+), unwind(?:: (bb\d+)| (continue|unreachable|terminate\([a-z]+\)))\]$', rest)
        if not m:
            raise Unsupported('assert terminator: ' + t)
        uw = ('bb', m.group(2)) if m.group(2) else (m.group(3).split('(')[0], None)
        return Term('assert', text, {'cond': parse_operand(cond), 'neg': neg, 'msg': inner[1] if len(inner) > 1 else '',
                                     'ret': m.group(1), 'unwind': uw})
    # call
    m = UNWIND_RE.search(t)
    if m:
        ret, uw = _unwind_info(m)
        head = t[:m.start()]
        dest = None
        # "DEST = CALLEE(ARGS)"; DEST is a place and therefore contains no " = "
        if re.match(r'^[_(]', head) and ' = ' in head:
            lhs, rhs = head.split(' = ', 1)
            try:
                dest = parse_place(lhs)
                head = rhs
            except Unsupported:
                dest = None
        head = head.strip()
        if not head.endswith(')'):
            raise Unsupported('call terminator: ' + t)
        o = match_open_from_end(head)
        callee = head[:o].strip()
        inner = head[o + 1:-1].strip()
        args = [parse_operand(a) for a in split_top(inner)] if inner else []
        return Term('call', text, {'dest': dest, 'callee': callee, 'args': args, 'ret': ret, 'unwind': uw})
    raise Unsupported('terminator: %r' % t)


# ----------------------------------------------------------------------------
# items
# ----------------------------------------------------------------------------

FN_RE = re.compile(r'^fn (?P<name>.+?)\((?P<args>(?:_1: .*)?)\) -> (?P<ret>.*) \{$')
NAME_PAT = r'(?P<name>(?:<impl at [^>]*>|::|[^:])+?)'
CONST_RE = re.compile(r'^(?:const|static|static mut) ' + NAME_PAT + r': (?P<ty>.*) = \{$')
CONST_INLINE_RE = re.compile(r'^(?:const|static) ' + NAME_PAT + r': (?P<ty>.*) = const (?P<val>.*);$')
LOCAL_RE = re.compile(r'^\s+let (?:mut )?_(\d+): (.*);$')
BB_RE = re.compile(r'^\s+(bb\d+)( \(cleanup\))?: \{$')


def parse_mir(text: str, crate: str) -> Dict[str, Func]:
    funcs: Dict[str, Func] = {}
    lines = text.split('\n')
    i, n = 0, len(lines)
    while i < n:
        line = lines[i]
        if line.startswith('//') or not line.strip():
            i += 1
            continue
        m = FN_RE.match(line)
        cm = CONST_RE.match(line) if not m else None
        if m or cm:
            if m:
                name = m.group('name')
                args = split_top(m.group('args')) if m.group('args') else []
                arg_types = [a.split(': ', 1)[1] for a in args]
                ret = m.group('ret')
                kind = 'fn'
            else:
                name = cm.group('name')
                arg_types = []
                ret = cm.group('ty')
                kind = 'promoted' if 'promoted[' in name else 'const'
            f = Func(name, kind, arg_types, ret, {}, {}, crate, line)
            for k, t in enumerate(arg_types):
                f.locals[k + 1] = t
            i += 1
            cur: Optional[Block] = None
            pending = None
            while i < n and lines[i] != '}':
                l = lines[i]
                lm = LOCAL_RE.match(l)
                bm = BB_RE.match(l)
                if cur is None and lm:
                    f.locals[int(lm.group(1))] = lm.group(2)
                elif bm:
                    cur = Block(bm.group(1), bool(bm.group(2)), [], None)
                    f.blocks[cur.name] = cur
                elif cur is not None:
                    s = l.strip()
                    if s == '}':
                        if cur.term is None and cur.stmts:
                            # last statement is the terminator
                            last = cur.stmts.pop()
                            cur.term = parse_term(last)
                        cur = None
                    elif s:
                        # statements may span lines only for long consts: join until ';'
                        if pending is not None:
                            s = pending + ' ' + s
                            pending = None
                        if not s.endswith(';'):
                            pending = s
                        else:
                            cur.stmts.append(s)
                i += 1
            # parse statements now
            for b in f.blocks.values():
                b.stmts = [parse_stmt(s) for s in b.stmts]
            if name in funcs:
                # several items printed under one name (impls generated by a macro share the span)
                k = 2
                while '%s#%d' % (name, k) in funcs:
                    k += 1
                name = '%s#%d' % (name, k)
                f.name = name
            funcs[name] = f
            i += 1
            continue
        im = CONST_INLINE_RE.match(line)
        if im:
            f = Func(im.group('name'), 'constval', [], im.group('ty'), {}, {}, crate, line)
            f.const_value = im.group('val')
            funcs[f.name] = f
            i += 1
            continue
        if line.startswith('alloc') or line.startswith(' ') or line.startswith('}') or line.startswith('╾'):
            i += 1
            continue
        # anything else at top level (e.g. "// MIR FOR CTFE") is skipped but recorded
        i += 1
    return funcs
