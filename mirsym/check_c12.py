"""C12: concurrent emitters through a shared buffered sink stay line-atomic.

(a) On the MIR of Buffered{Udp,Unix,Spy}MetricSink::{emit,flush}: every path is `lock(m) ; exactly one
    MultiLineWriter::{write,flush} call (with the metric bytes) ; unlock(m)`, and every socket / channel operation lies
    inside that section.  (b) With the Mutex contract, an SMT query over the symbolic schedule of Thr threads x 2 operations
    shows that two sections never overlap and that each thread's operations take effect in program order, so every
    concurrent history is a sequential history of writer operations.  (c) Those are decided by the C05-C07 obligations.
"""
import json
import time

import z3

from . import dump, replay
from . import sinks_model as sm
from .executor import Explorer
from .mirparse import Unsupported
from .stubs import is_variant
from .values import *


def section_paths(prog, sink_ty, ctor, ctor_args, out):
    """All paths of emit and flush on one sink value; returns list of (op, event kinds...)."""
    res = []
    stats = []
    for op in ('emit', 'flush'):
        ex = Explorer(prog, timeout_ms=60000, seed=out.seed)
        sm.install(ex)
        ex.call_trace = {('MultiLineWriter', 'write'), ('MultiLineWriter', 'flush')}
        mlen = z3.BitVec('len_m0', 64)
        ex.assumptions = [z3.ULE(mlen, (1 << 47) - 1), z3.UGE(mlen, 1)]
        ex.var_bounds = {'len_m0': (1 << 47) - 1}

        def entry(ex, op=op):
            r = ex.call(prog.find_impl_method(ctor, sink_ty), ctor_args(ex))
            if is_variant(r, 'Err'):
                return None
            sink = r.fields[0] if is_variant(r, 'Ok') else r
            if isinstance(sink, Agg) and sink.kind == 'tuple':
                sink = sink.fields[1]          # (Receiver, sink) of the spy constructors
            c = Cell(sink, 'sink')
            ex.out['e0'] = len(ex.events)
            if op == 'emit':
                return ex.call(prog.find_impl_method('emit', sink_ty, 'MetricSink'), [Ref(c), Str((Atom('m0', mlen),), 'str')])
            return ex.call(prog.find_impl_method('flush', sink_ty, 'MetricSink'), [Ref(c)])

        def on_path(ex, r, status, op=op):
            if r is None:
                return
            evs = ex.events[ex.out['e0']:]
            seq = []
            for e in evs:
                if e[0] in ('lock', 'unlock'):
                    seq.append((e[0], e[1]))
                elif e[0] == 'enter':
                    arg = e[3][0] if e[3] else None
                    seq.append(('mlw', e[2], arg.key() if isinstance(arg, Str) else None))
                elif e[0] in ('send_to', 'try_send'):
                    seq.append(('io',))
            res.append((op, status, seq))

        ex.run(entry, on_path)
        stats.append(ex.stats)
    return res, stats


def check_sections(paths, sink_ty, findings):
    n = 0
    for op, status, seq in paths:
        n += 1
        if status == 'panic':
            findings.append({'clause': 'no-panic', 'detail': '%s::%s can panic' % (sink_ty, op)})
            continue
        locks = [s for s in seq if s[0] == 'lock']
        unlocks = [s for s in seq if s[0] == 'unlock']
        mlw = [s for s in seq if s[0] == 'mlw']
        shape_ok = (len(locks) == 1 and len(unlocks) == 1 and locks[0][1] == unlocks[0][1] and seq and seq[0][0] == 'lock' and seq[-1][0] == 'unlock')
        if not shape_ok:
            findings.append({'clause': 'one-critical-section', 'detail': '%s::%s is not a single lock..unlock section: %r' % (sink_ty, op, seq)})
            continue
        top = [s for s in mlw]
        want = 'write' if op == 'emit' else 'flush'
        # nested calls (write calling flush) are fine; the first writer call must be the operation itself
        if not top or top[0][1] != want:
            findings.append({'clause': 'one-writer-op-per-section', 'detail': '%s::%s does not perform MultiLineWriter::%s under the lock: %r' % (sink_ty, op, want, seq)})
            continue
        if op == 'emit' and top[0][2] != (('str', 'm0'),):
            findings.append({'clause': 'writes-its-own-metric', 'detail': '%s::emit hands %r to the writer instead of its metric' % (sink_ty, top[0][2])})
        if sum(1 for s in top if s[1] == 'write') > 1:
            findings.append({'clause': 'one-writer-op-per-section', 'detail': '%s::emit calls MultiLineWriter::write more than once: %r' % (sink_ty, seq)})
    return n


def mutex_schedule_query(nthreads, ops_per_thread, timeout_ms=120000, broken=False):
    """Threads each performing `ops_per_thread` sections [lock ; body ; unlock] on one mutex: is there a schedule in which
    two bodies overlap, or a thread's sections take effect out of program order? (unsat expected). Bit-vector encoding:
    per thread a phase (0 lock, 1 body, 2 unlock) and a section counter; `sched[t]` picks the thread that moves."""
    T = nthreads * ops_per_thread * 3
    W = 4
    s = z3.SolverFor('QF_BV')
    s.set('timeout', timeout_ms)
    V = lambda v: z3.BitVecVal(v, W)
    sched = [z3.BitVec('s_%d' % t, W) for t in range(T)]
    phase = [V(0) for _ in range(nthreads)]
    k = [V(0) for _ in range(nthreads)]
    last_eff = [V(15) for _ in range(nthreads)]       # 15 = none yet
    inbody = [z3.BoolVal(False) for _ in range(nthreads)]
    held = z3.BoolVal(False)
    overlap, order_bad = [], []
    for t in range(T):
        s.add(z3.ULT(sched[t], nthreads))
        nheld = held
        nphase, nk, nlast, ninbody = list(phase), list(k), list(last_eff), list(inbody)
        for i in range(nthreads):
            here = sched[t] == i
            s.add(z3.Implies(here, z3.ULT(k[i], ops_per_thread)))
            if not broken:
                s.add(z3.Implies(z3.And(here, phase[i] == 0), z3.Not(held)))      # lock only when free
            nheld = z3.If(z3.And(here, phase[i] == 0), z3.BoolVal(True), z3.If(z3.And(here, phase[i] == 2), z3.BoolVal(False), nheld))
            body_now = z3.And(here, phase[i] == 1)
            others_in = z3.Or(*[inbody[j] for j in range(nthreads) if j != i]) if nthreads > 1 else z3.BoolVal(False)
            overlap.append(z3.And(body_now, others_in))
            order_bad.append(z3.And(body_now, last_eff[i] != 15, z3.ULE(k[i], last_eff[i])))
            ninbody[i] = z3.If(z3.And(here, phase[i] == 0), z3.BoolVal(True), z3.If(z3.And(here, phase[i] == 2), z3.BoolVal(False), inbody[i]))
            nlast[i] = z3.If(body_now, k[i], last_eff[i])
            nphase[i] = z3.If(here, z3.If(phase[i] == 2, V(0), phase[i] + 1), phase[i])
            nk[i] = z3.If(z3.And(here, phase[i] == 2), k[i] + 1, k[i])
        # name the successor state (keeps the terms small)
        held = z3.Bool('held_%d' % (t + 1))
        s.add(held == nheld)
        for i in range(nthreads):
            for name, lst, nv in (('ph', phase, nphase), ('k', k, nk), ('le', last_eff, nlast)):
                var = z3.BitVec('%s_%d_%d' % (name, i, t + 1), W)
                s.add(var == nv[i])
                lst[i] = var
            var = z3.Bool('ib_%d_%d' % (i, t + 1))
            s.add(var == ninbody[i])
            inbody[i] = var
    for i in range(nthreads):
        s.add(k[i] == ops_per_thread, phase[i] == 0)
    reach = s.check()
    s.push()
    s.add(z3.Or(*(overlap + order_bad)))
    r = s.check()
    s.pop()
    return ('sat' if reach == z3.sat else 'unsat' if reach == z3.unsat else 'unknown'), ('sat' if r == z3.sat else 'unsat' if r == z3.unsat else 'unknown')


ASSUMPTIONS = [
    'std::sync::Mutex: lock blocks while another thread holds the guard; the guard is released exactly when it is dropped; poisoning only after a panic under the lock (none is reachable: C20/C07)',
    'a critical section containing exactly one MultiLineWriter operation is atomic w.r.t. every other section on the same mutex, so a concurrent history is a sequential history of writer operations (judged by C05-C07)',
    'StatsdClient formats each metric into a call-local String before the sink is touched (frame condition of C03)',
]


def run(out, replay_path=None):
    pid = out.pid
    if replay_path:
        sc = json.load(open(replay_path))
        res = replay.run_scenarios([sc])[0]
        hit = [v for v in res.get('violations', []) if v['prop'] == pid]
        out.evidence = {'coverage': {'traces_validated_against_impl': 1, 'samples': [sc], 'explanation': 'replay only'}}
        if hit:
            out.violations.append({'key': None, 'what': hit[0]['detail'], 'scenario': sc, 'native': hit})
        return
    prog, dinfo = dump.dump_mir()
    from . import writer_model as _wm
    _wm.field_order_check(prog)
    thorough = out.tier == 'thorough'
    findings, npaths, stats = [], 0, []
    cap = z3.BitVec('cap', 64)
    sinks = [
        ('BufferedUdpMetricSink', 'with_capacity', lambda ex: [Native('AddrInput', None, fresh_id()), sm.new_socket('UdpSocket'), Int(cap, 'usize')]),
        ('BufferedUnixMetricSink', 'with_capacity', lambda ex: [Native('PathInput', None, fresh_id()), sm.new_socket('UnixDatagram'), Int(cap, 'usize')]),
        ('BufferedSpyMetricSink', 'with_capacity', lambda ex: [Agg('enum', 'Option', 'None', (), 0), Agg('enum', 'Option', 'Some', (Int(cap, 'usize'),), 1)]),
    ]
    for sink_ty, ctor, args in sinks:
        paths, st = section_paths(prog, sink_ty, ctor, args, out)
        stats += st
        if not any(p[0] == 'emit' for p in paths) or not any(p[0] == 'flush' for p in paths):
            raise Unsupported('vacuous: no emit / flush path for ' + sink_ty)
        before = len(findings)
        npaths += check_sections(paths, sink_ty, findings)
        for f in findings[before:]:
            f['sink'] = sink_ty
    nthr, nops = (5, 3) if thorough else (3, 2)
    reach, bad = mutex_schedule_query(nthr, nops)
    if reach != 'sat' or bad == 'unknown':
        raise Unsupported('mutex schedule model: reach=%s bad=%s' % (reach, bad))
    # twin: without the "lock only when free" rule the same query must find overlapping sections
    if mutex_schedule_query(2, 2, broken=True)[1] != 'sat':
        raise Unsupported('vacuous: the mutex schedule model cannot express overlapping sections')
    if bad == 'sat':
        findings.append({'clause': 'mutual-exclusion', 'detail': 'the schedule model admits overlapping sections (model error)'})
    # (b') a queuing sink in front of the buffered sink keeps each thread's order only while the worker is the single
    # consumer of the queue: no caller-side program (emit, clone, drop, flush, stats) may take entries off the channel
    from . import queue_model as qm
    qfind = []
    x = qm.Extraction(prog, 'bounded', True)
    for w in ('emit', 'clone', 'drop', 'flush', 'stats'):
        try:
            P = x.run_program(w)
        except Unsupported as e:
            if 'loop' not in str(e):
                raise
            # caller-side programs are loop-free on the pinned tree; a loop here is almost certainly one over the queue
            qfind.append({'clause': 'queue-single-consumer', 'detail': 'QueuingMetricSink::%s contains a loop (%s): caller-side programs must not iterate over the queue' % (w, str(e)[:120])})
            continue
        npaths += len(P.paths)
        for ops, leaf in P.paths:
            taken = [o['kind'] for o in ops if o['kind'] in ('recv', 'try_recv') and o.get('out') in ('some', None)]
            if taken:
                qfind.append({'clause': 'queue-single-consumer', 'detail': 'QueuingMetricSink::%s takes entries off the queue on the calling thread (%s): a second consumer can overtake the worker' % (w, [qm.fmt_op(o) for o in ops])})
                break
    stats += x.stats
    # (c) the sequential judge
    from . import check_writer
    from .checks import Outcome
    sub = Outcome('C05', out.tier, out.seed)
    check_writer.run(sub, with_sinks=False)
    sub6 = Outcome('C06', out.tier, out.seed)
    from .check_writer import _stats_sum
    tot, st, fns, stubs_, steps, _, backend = _stats_sum(stats)
    cw = sub.evidence.get('coverage', {})
    out.evidence = {
        'level': 'model_checking', 'assumptions': ASSUMPTIONS,
        'coverage': {
            'states': npaths + int(cw.get('states', 0) or 0), 'transitions': steps + int(cw.get('transitions', 0) or 0),
            'traces_validated_against_impl': int(cw.get('traces_validated_against_impl', 0) or 0),
            'obligations': npaths + 2 + int(cw.get('obligations', 0) or 0), 'discharged': npaths + 2 - len(findings) + int(cw.get('discharged', 0) or 0),
            'queries': {'total': tot['total'] + 2 + cw.get('queries', {}).get('total', 0)}, 'evaluations': tot['total'] + 2 + cw.get('evaluations', 0),
            'distinct_nontrivial': max(2, npaths),
            'rule': 'section-structure obligations on every path of emit/flush of the three buffered sinks; one symbolic-schedule query for the mutex protocol '
                    '(%d threads x %d operations); the writer obligations of C05-C07 as the sequential judge' % (nthr, nops),
            'solver_time_s': round(st + cw.get('solver_time_s', 0.0), 2), 'functions_encoded': sorted(fns | set(cw.get('functions_encoded', []))), 'stubs': sorted(stubs_),
            'bounds': {'threads': nthr, 'ops_per_thread': nops, 'writer': cw.get('bounds')},
            'mir': dinfo, 'samples': [{'sinks': [s[0] for s in sinks], 'section_paths': npaths, 'mutex_schedule_query': {'complete-schedule-exists': reach, 'overlap-or-reorder': bad}}],
        },
    }
    if sub.violations:
        for v in sub.violations:
            v = dict(v)
            v['what'] = 'the sequential writer breaks framing (C05), so concurrent emitters do too: ' + v['what']
            out.violations.append(v)
        return
    out.inconclusive += sub.inconclusive
    if qfind:
        sc = {'kind': 'queue-second-consumer'}
        o = replay.run_scenarios([sc], timeout=120)[0]
        out.evidence['coverage']['traces_validated_against_impl'] += 1
        hit = [v for v in o.get('violations', []) if v['prop'] == pid]
        if hit:
            out.violations.append({'key': 'c12:queue-single-consumer', 'what': '%s; native: %s' % (qfind[0]['detail'][:300], hit[0]['detail'][:300]), 'scenario': sc, 'native': hit})
            return
        out.inconclusive.append('%s - not reproduced natively' % qfind[0]['detail'][:400])
    if findings:
        sc = {'kind': 'c12-stress', 'threads': 8, 'sink_ty': findings[0].get('sink', '')}
        o = replay.run_scenarios([sc], timeout=300)[0]
        out.evidence['coverage']['traces_validated_against_impl'] += 1
        hit = [v for v in o.get('violations', []) if v['prop'] == pid]
        if hit:
            out.violations.append({'key': 'c12:%s' % findings[0]['clause'], 'what': '%s (%s); native: %s' % (findings[0]['clause'], findings[0]['detail'][:300], hit[0]['detail'][:300]),
                                   'scenario': sc, 'native': hit})
        else:
            sc2 = {'kind': 'c12-flush-contended'}
            o2 = replay.run_scenarios([sc2], timeout=120)[0]
            out.evidence['coverage']['traces_validated_against_impl'] += 1
            hit2 = [v for v in o2.get('violations', []) if v['prop'] == pid]
            if hit2:
                out.violations.append({'key': 'c12:%s' % findings[0]['clause'], 'what': '%s (%s); native: %s' % (findings[0]['clause'], findings[0]['detail'][:300], hit2[0]['detail'][:300]),
                                       'scenario': sc2, 'native': hit2})
                return
            out.inconclusive.append('section structure violated (%s: %s) but concurrent emitters did not show a framing / conservation violation natively' % (
                findings[0]['clause'], findings[0]['detail'][:300]))
