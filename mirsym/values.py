"""Symbolic value domain of the MIR executor.

All values are immutable; mutation goes through `Cell`s (locals, heap objects) and
functional path updates, so sharing a value between two places is always safe.
"""
from dataclasses import dataclass, field
from typing import Any, Optional, Tuple
import itertools
import z3

_ids = itertools.count(1)

INT_TYPES = {
    'u8': (8, False), 'u16': (16, False), 'u32': (32, False), 'u64': (64, False), 'u128': (128, False),
    'usize': (64, False), 'i8': (8, True), 'i16': (16, True), 'i32': (32, True), 'i64': (64, True),
    'i128': (128, True), 'isize': (64, True), 'char': (32, False),
}


class Cell:
    """A mutable memory location (a local, a Box/Arc pointee, an environment object)."""
    __slots__ = ('v', 'name', 'id', 'tracked')

    def __init__(self, v=None, name=''):
        self.v = v
        self.name = name
        self.id = next(_ids)
        self.tracked = False

    def __repr__(self):
        return 'Cell#%d(%s)' % (self.id, self.name)


@dataclass(frozen=True)
class Int:
    t: Any            # z3 BitVecRef
    ty: str           # rust type name

    @property
    def bits(self):
        return INT_TYPES[self.ty][0]

    @property
    def signed(self):
        return INT_TYPES[self.ty][1]

    def concrete(self) -> Optional[int]:
        s = z3.simplify(self.t)
        if z3.is_bv_value(s):
            return s.as_signed_long() if self.signed else s.as_long()
        return None

    def __repr__(self):
        return 'Int(%s:%s)' % (z3.simplify(self.t), self.ty)


def mk_int(v: int, ty: str) -> Int:
    bits, _ = INT_TYPES[ty]
    return Int(z3.BitVecVal(v, bits), ty)


@dataclass(frozen=True)
class Bool:
    t: Any            # z3 BoolRef

    def concrete(self) -> Optional[bool]:
        s = z3.simplify(self.t)
        if z3.is_true(s):
            return True
        if z3.is_false(s):
            return False
        return None

    def __repr__(self):
        return 'Bool(%s)' % z3.simplify(self.t)


TRUE = Bool(z3.BoolVal(True))
FALSE = Bool(z3.BoolVal(False))


@dataclass(frozen=True)
class Float:
    """f64 carried as an opaque 64-bit pattern (bit-identity is what C02 is about)."""
    bits: Any         # z3 BitVec(64)
    ty: str = 'f64'

    def __repr__(self):
        return 'Float(%s)' % z3.simplify(self.bits)


@dataclass(frozen=True)
class Unit:
    def __repr__(self):
        return '()'


UNIT = Unit()


@dataclass(frozen=True)
class Agg:
    """struct / tuple / enum variant / closure / array."""
    kind: str                 # 'struct' | 'tuple' | 'enum' | 'closure' | 'array'
    name: str                 # type name (last path segment, no generics); '' for tuples
    variant: Optional[str]    # enum variant name
    fields: Tuple[Any, ...]
    vidx: Optional[int] = None  # discriminant value for enums

    def with_field(self, i, v):
        f = list(self.fields)
        f[i] = v
        return Agg(self.kind, self.name, self.variant, tuple(f), self.vidx)

    def __repr__(self):
        if self.kind == 'enum':
            return '%s::%s%r' % (self.name, self.variant, self.fields)
        return '%s%s%r' % (self.kind[0], self.name, self.fields)


@dataclass(frozen=True)
class Ref:
    cell: Cell
    path: Tuple[Any, ...] = ()     # ints (field / index) only
    mut: bool = False

    def __repr__(self):
        return '&%r%s' % (self.cell, ''.join('.%s' % p for p in self.path))


@dataclass(frozen=True)
class BoxV:
    cell: Cell
    ty: str = ''


@dataclass(frozen=True)
class ArcV:
    cell: Cell        # cell.v = ArcInner
    ty: str = ''


@dataclass(frozen=True)
class ArcInner:
    value: Any
    strong: int
    label: str = ''


# --- strings -------------------------------------------------------------------

@dataclass(frozen=True)
class Atom:
    """An opaque run of bytes: a user string, or the decimal rendering of a number."""
    name: str
    length: Any               # z3 BitVec(64)
    kind: str = 'str'         # 'str' | 'dec'
    payload: Tuple[Any, ...] = ()   # for 'dec': (rust type, z3 term)  - identity of the rendered value

    def key(self):
        if self.kind == 'dec':
            return ('dec', self.payload[0], z3.simplify(self.payload[1]).sexpr(), self.payload[2:] )
        return ('str', self.name)

    def __repr__(self):
        if self.kind == 'dec':
            return '<%s %s>' % (self.payload[0], z3.simplify(self.payload[1]))
        return '<%s>' % self.name


@dataclass(frozen=True)
class Str:
    """A byte string as a list of pieces: python `bytes` literals and `Atom`s."""
    pieces: Tuple[Any, ...] = ()
    rty: str = 'str'          # 'str' | 'String' | 'bytes' | 'Vec<u8>'

    def norm(self):
        out = []
        for p in self.pieces:
            if isinstance(p, bytes):
                if not p:
                    continue
                if out and isinstance(out[-1], bytes):
                    out[-1] = out[-1] + p
                else:
                    out.append(p)
            else:
                out.append(p)
        return tuple(out)

    def key(self):
        return tuple(p if isinstance(p, bytes) else p.key() for p in self.norm())

    def length(self):
        t = z3.BitVecVal(0, 64)
        for p in self.pieces:
            if isinstance(p, bytes):
                t = t + z3.BitVecVal(len(p), 64)
            else:
                t = t + p.length
        return z3.simplify(t)

    def cat(self, other: 'Str') -> 'Str':
        return Str(self.pieces + other.pieces, self.rty)

    def as_type(self, rty):
        return Str(self.pieces, rty)

    def is_empty_literal(self):
        return len(self.norm()) == 0

    def __repr__(self):
        return 'Str[%s]' % ' '.join(repr(p) if not isinstance(p, bytes) else repr(p.decode('latin1')) for p in self.norm())


def lit(s) -> Str:
    if isinstance(s, str):
        s = s.encode('utf-8')
    return Str((s,))


# --- sequences ------------------------------------------------------------------

@dataclass(frozen=True)
class Vec:
    elems: Tuple[Any, ...]
    ety: str = ''            # element type as text, e.g. 'u64', 'Duration'

    def __repr__(self):
        return 'Vec<%s>%r' % (self.ety, list(self.elems))


@dataclass(frozen=True)
class Native:
    """Environment / std object modelled in Python. `state` is immutable data."""
    rty: str
    state: Any = None
    ident: int = 0

    def __repr__(self):
        return 'Native<%s#%d>' % (self.rty, self.ident)


@dataclass(frozen=True)
class Closure:
    fn: str                  # name of the MIR function of the closure body
    tyname: str              # {closure@file:l:c: l:c}
    captures: Tuple[Any, ...] = ()
    capnames: Tuple[str, ...] = ()


@dataclass(frozen=True)
class FnItem:
    name: str


class Moved:
    def __repr__(self):
        return '<moved>'


MOVED = Moved()


class Uninit:
    def __repr__(self):
        return '<uninit>'


UNINIT = Uninit()


def fresh_id() -> int:
    return next(_ids)
