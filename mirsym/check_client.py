"""C01, C03, C04 (and the MIR side of C02): metric calls on a client, decided on the MIR of the
client / builder / formatter code with strings as opaque atoms. See DESIGN.md §5."""
import itertools
import json
import multiprocessing as mp
import os
import time

import z3

from . import dump, replay
from . import client_model as cm
from .executor import Explorer, IO_ERROR_KINDS
from .mirparse import Unsupported
from .values import *

_PROG = None


def configs_for(ep, tier, seed, idx):
    """The structures (which sections are present, how many tags, call form) explored for one entry point."""
    tr, vty, meth, code, mty = ep
    packed = vty.startswith('Vec<')
    nv_list = ([0, 1, 2] if tier == 'quick' else [0, 1, 2, 3, 4]) if packed else [None]
    cfgs = []
    tagsets = [(), ('kv',), ('bare',), ('kv', 'bare'), ('bare', 'kv'), ('kv', 'kv')]
    if tier == 'thorough':
        tagsets += [('kv', 'bare', 'kv'), ('bare', 'bare', 'kv')]
    dtagsets = [(), ('kv',), ('bare',), ('kv', 'bare'), ('bare', 'kv'), ('kv', 'kv'), ('bare', 'bare')] if tier == 'quick' else [(), ('kv',), ('bare',), ('kv', 'bare'), ('bare', 'kv'), ('kv', 'kv'), ('bare', 'bare')]
    prefixes = [(False, 0), (False, 1), (False, 2), (True, 0)]
    # plain form: client-side configuration only
    for (pe, pd), dt, dc in itertools.product(prefixes, dtagsets, (False, True)):
        for nv in nv_list:
            if nv in (0, 3, 4) and (dt or dc or pd):
                continue
            cfgs.append(cm.Config(prefix_dots=pd, prefix_empty=pe, dtags=dt, default_cid=dc, form='plain', nvals=nv))
    # tagged / quiet: per-call decoration; the full product on a rotating subset of entry points, a covering
    # selection elsewhere
    full = tier == 'thorough' or ((idx + seed) % 12 == 0)
    combos = list(itertools.product(tagsets, (False, True), (False, True), (False, True)))
    for form in ('tagged', 'quiet'):
        if full:
            sel = [(tg, r, cc, ts, dt, dc) for (tg, r, cc, ts) in combos for dt in dtagsets[:3] for dc in (False, True)]
        else:
            sel = []
            for j, (tg, r, cc, ts) in enumerate(combos):
                if (j + idx + seed) % 4 == 0 or (tg, r, cc, ts) in ((('kv', 'bare'), True, True, True), ((), False, False, False), (('kv',), False, True, False)):
                    sel.append((tg, r, cc, ts, dtagsets[(j + idx) % len(dtagsets)], (j + idx) % 2 == 0))
            sel.append((('bare', 'kv'), True, True, True, ('kv', 'bare'), True))
            sel.append(((), False, True, False, (), True))
        for (tg, r, cc, ts, dt, dc) in sel:
            for nv in nv_list:
                if nv in (0, 3, 4) and (tg or r):
                    continue
                cfgs.append(cm.Config(prefix_dots=1 if (len(tg) + idx) % 2 else 0, prefix_empty=(len(tg) == 2 and not r), dtags=dt, default_cid=dc,
                                      tags=tg, rate=r, call_cid=cc, ts=ts, form=form, nvals=nv))
    # de-duplicate
    seen, out = set(), []
    for c in cfgs:
        if c.key() not in seen:
            seen.add(c.key())
            out.append(c)
    return out


def _job(args):
    eps_cfgs, timeout_ms, seed = args
    prog = _PROG
    ex = Explorer(prog, timeout_ms=timeout_ms, seed=seed)
    cm.install(ex)
    findings = []
    counters = {'obligations': 0, 'paths': 0, 'runs': 0, 'emitting_paths': 0, 'rejecting_paths': 0}
    samples = []
    err = None
    seen_kinds = {}
    stopped_early = False
    for item in eps_cfgs:
        ep, cfg = item[0], item[1]
        k = item[2] if len(item) > 2 else 1
        if sum(1 for f in findings if f['scenario'] is not None) >= 8 or len(findings) >= 200:
            # plenty of counterexamples to replay already: do not burn the budget on more of the same
            stopped_early = True
            break
        ex.assumptions = cm.len_assumptions(cm.input_names(cfg), cfg)
        ex.var_bounds = cm.len_bounds(cm.input_names(cfg))
        local = []

        def entry(ex, ep=ep, cfg=cfg, k=k):
            if k > 1:
                return cm.do_calls(ex, prog, ep, cfg, k)
            return cm.do_call(ex, prog, ep, cfg)

        def on_path(ex, result, status, ep=ep, cfg=cfg, k=k):
            counters['paths'] += 1
            if status == 'cut':
                return
            emits = [e for e in ex.events if e[0] == 'emit']
            counters['emitting_paths' if emits else 'rejecting_paths'] += 1
            if k > 1 and status == 'ok':
                for ci, (st_i, r_i, e0, e1) in enumerate(result):
                    cm.CallChecker(ex, prog, ep, cfg, local, counters, events=ex.events[e0:e1], call_index=ci, repeat=k).run(r_i, st_i)
            else:
                cm.CallChecker(ex, prog, ep, cfg, local, counters).run(result, status)
            if ex.out.get('stateful_client'):
                counters['stateful'] = counters.get('stateful', 0) + 1
            if len(samples) < 2 and emits:
                samples.append({'entry': list(ep[:3]), 'config': cfg.describe(), 'emitted': repr(emits[0][1]), 'sink': emits[0][2]})

        try:
            ex.trail = []
            ex.run(entry, on_path)
        except Unsupported as e:
            err = '%s %s: %s' % (ep[:3], cfg.describe(), str(e)[:600])
            break
        counters['runs'] += 1
        for f in local:
            kk = (f['prop'], f['clause'], ep[:2])
            seen_kinds[kk] = seen_kinds.get(kk, 0) + 1
            scs = scenarios_from_finding(f) if seen_kinds[kk] <= 2 else []
            if not scs:
                findings.append({'prop': f['prop'], 'clause': f['clause'], 'detail': str(f['detail']), 'scenario': None})
            for sc in scs:
                findings.append({'prop': f['prop'], 'clause': f['clause'], 'detail': str(f['detail']), 'scenario': sc})
    st = ex.stats
    return {'findings': findings, 'counters': counters, 'error': err, 'samples': samples, 'stopped_early': stopped_early,
            'queries': st.queries, 'sat': st.sat, 'unsat': st.unsat, 'unknown': st.unknown, 'solver_time': st.solver_time,
            'functions': sorted(st.functions), 'stubs': sorted(st.stubs), 'env': sorted(st.env_calls), 'steps': st.steps,
            'backend': dict(ex.smt.counts)}


def concrete_string(name, n):
    """A delimiter-free string of n bytes that identifies its atom."""
    base = {'P': 'p', 'key': 'k', 'dcid': 'C', 'ccid': 'c'}.get(name)
    if base is None:
        base = {'d': 'DEFGH', 't': 'tuvwx'}[name[0]][int(name[1]) % 5] if name[0] in 'dt' and name[1].isdigit() else 'z'
        if name.endswith('k'):
            base = base.upper() if name[0] == 't' else base.lower()
    return (base * n)[:n]


INT_CANDIDATES = [0, 1, -1, 2, 10, (1 << 63), (1 << 63) - 1, (1 << 64) - 1, (1 << 31), (1 << 32) - 1, 1 << 53, 1000000007]
F64_CANDIDATES = [0x8000000000000000, 0x0000000000000000, 0x3FF0000000000000, 0xBFF0000000000000, 0x3FB999999999999A, 0x7FF0000000000000,
                  0x7FF8000000000000, 0x0000000000000001, 0x7E37E43C8800759C, 0x4340000000000000, 0x4008000000000000, 0xC008000000000000]


def scenarios_from_finding(f):
    """One scenario from the solver model; for findings whose manifestation depends on digit generation (a number
    handed to the formatter of another type / with other bits) additional scenarios with boundary values that satisfy
    the path condition."""
    out = []
    first = scenario_from_finding(f)
    if first is not None:
        out.append(first)
    d = str(f['detail'])
    if 'number' in d or 'numeric value' in d or f['clause'] in ('value-on-wire',):
        ep, cfg = f['ep'], f['cfg']
        vty = ep[1]
        nv = cfg.nvals if cfg.nvals is not None else 2
        if vty in ('i64', 'i32', 'u64', 'u32', 'Vec<u64>'):
            bits = 64 if vty.startswith('Vec') else INT_TYPES[vty][0]
            var = lambda i: z3.BitVec('val%d' % i, bits)
            cands = [c & ((1 << bits) - 1) for c in INT_CANDIDATES]
        elif vty in ('f64', 'Vec<f64>'):
            bits = 64
            var = lambda i: z3.BitVec('fval%d' % i, 64)
            cands = F64_CANDIDATES
        else:
            cands = []
        n = nv if vty.startswith('Vec') else 1
        for c in cands:
            extra = [var(i) == z3.BitVecVal(c, bits) for i in range(max(1, n))]
            g = dict(f)
            g['pc'] = f['pc'] + extra
            sc = scenario_from_finding(g)
            if sc is not None:
                out.append(sc)
        if cfg.rate:
            for c in F64_CANDIDATES[:6]:
                g = dict(f)
                g['pc'] = f['pc'] + [z3.BitVec('rate_bits', 64) == z3.BitVecVal(c, 64)]
                sc = scenario_from_finding(g)
                if sc is not None:
                    out.append(sc)
    return out


def scenario_from_finding(f):
    from .writer_model import small_model
    cfg, ep = f['cfg'], f['ep']
    names = cm.input_names(cfg)
    lens = [z3.BitVec('len_' + n, 64) for n in names]
    nonempty = [z3.UGE(l, 1) for l in lens]
    m = small_model(f['pc'] + [f['neg']] + nonempty, lens, limits=(6, 24)) or small_model(f['pc'] + [f['neg']], lens, limits=(6, 24, 200))
    if m is None:
        return None
    g = lambda t: m.eval(t, model_completion=True).as_long()
    strings = {}
    for n, l in zip(names, lens):
        ln = g(l)
        if ln > 4096:
            return None
        strings[n] = concrete_string(n, ln)
    # strings the path condition declares equal get the same text
    for vn, (a, b) in (f.get('streq') or {}).items():
        val = m.eval(z3.Bool(vn), model_completion=True)
        if z3.is_true(val):
            ka, kb = a.norm(), b.norm()
            if len(ka) == 1 and len(kb) == 1 and not isinstance(ka[0], bytes) and not isinstance(kb[0], bytes):
                if ka[0].name in strings and kb[0].name in strings:
                    strings[kb[0].name] = strings[ka[0].name]
            elif len(ka) == 1 and not isinstance(ka[0], bytes) and all(isinstance(x, bytes) for x in kb) and ka[0].name in strings:
                strings[ka[0].name] = b''.join(kb).decode('utf-8', 'replace')
            elif len(kb) == 1 and not isinstance(kb[0], bytes) and all(isinstance(x, bytes) for x in ka) and kb[0].name in strings:
                strings[kb[0].name] = b''.join(ka).decode('utf-8', 'replace')
    sc = {'kind': 'client', 'entry': list(ep[:3]), 'config': cfg.describe(), 'strings': strings,
          'prefix': '' if cfg.prefix_empty else strings.get('P', '') + '.' * cfg.prefix_dots}
    tr, vty = ep[0], ep[1]
    nv = cfg.nvals if cfg.nvals is not None else 2
    if tr == 'CountedExt':
        sc['values'] = []
    elif vty in ('i64', 'i32', 'u64', 'u32'):
        v = g(z3.BitVec('val0', INT_TYPES[vty][0]))
        if INT_TYPES[vty][1] and v >= 1 << (INT_TYPES[vty][0] - 1):
            v -= 1 << INT_TYPES[vty][0]
        sc['values'] = [str(v)]
    elif vty == 'f64':
        sc['values'] = [str(g(z3.BitVec('fval0', 64)))]
    elif vty == 'Duration':
        sc['values'] = [[str(g(z3.BitVec('secs0', 64))), g(z3.BitVec('nanos0', 32)) % 1000000000]]
    elif vty == 'Vec<u64>':
        sc['values'] = [str(g(z3.BitVec('val%d' % i, 64))) for i in range(nv)]
    elif vty == 'Vec<f64>':
        sc['values'] = [str(g(z3.BitVec('fval%d' % i, 64))) for i in range(nv)]
    elif vty == 'Vec<Duration>':
        sc['values'] = [[str(g(z3.BitVec('secs%d' % i, 64))), g(z3.BitVec('nanos%d' % i, 32)) % 1000000000] for i in range(nv)]
    sc['rate_bits'] = str(g(z3.BitVec('rate_bits', 64))) if cfg.rate else None
    sc['timestamp'] = str(g(z3.BitVec('ts_val', 64))) if cfg.ts else None
    sink_fail = any(e[0] == 'emit' and e[2] == 'err' for e in f['events'])
    sc['sink'] = 'err' if sink_fail else 'ok'
    script = []
    inv_kinds = {v: k for k, v in IO_ERROR_KINDS.items()}
    for e in f['full_events']:
        if e[0] != 'emit':
            continue
        if e[2] == 'ok':
            script.append('ok')
        else:
            kv = m.eval(e[3].state[1], model_completion=True).as_long()
            script.append('err:' + inv_kinds.get(kv, 'Other'))
    sc['sink_script'] = script
    sc['repeat'] = f.get('repeat', 1)
    sc['call_index'] = f.get('call_index', 0)
    sc['claimed'] = {'prop': f['prop'], 'clause': f['clause'], 'detail': str(f['detail'])[:400]}
    return sc


ASSUMPTIONS = [
    "core's Display for integers / f64 prints the canonical decimal / a shortest round-tripping decimal (digit generation is opaque: "
    "each number becomes an atom identified by its type and exact bits; non-default format specs are rejected by the template interpreter)",
    'the sink and the error handler are environment objects: emit returns Ok(n) or Err(e) nondeterministically, the handler returns normally',
    'every input string is a Rust slice (len <= 2^47 here, so size-hint sums cannot overflow)',
    'std stubs listed under coverage.stubs (String/Vec/iterator/Option/Result/format template interpreter) have their textbook semantics',
    'allocation never fails',
]


def run_family(out, props, eps_filter=None):
    global _PROG
    pid = out.pid
    thorough = out.tier == 'thorough'
    prog, dinfo = dump.dump_mir()
    _PROG = prog
    eps = cm.entry_points(prog)
    if len(eps) != 24:
        out.notes.append('entry-point table has %d entries (23 value types + incr/decr expected 25 rows incl. both)' % len(eps))
    work = []
    for idx, ep in enumerate(eps):
        for cfg in configs_for(ep, out.tier, out.seed, idx):
            work.append((ep, cfg))
    # the same call repeated on one client (outcomes of consecutive calls are independent symbolic choices)
    seq_eps = [ep for i, ep in enumerate(eps) if thorough or (i + out.seed) % 5 == 0 or ep[1] == 'Duration']
    for ep in seq_eps:
        packed = ep[1].startswith('Vec<')
        for form in ('quiet', 'tagged', 'plain'):
            for k in ((2, 3) if thorough else (2,)):
                work.append((ep, cm.Config(prefix_dots=0, dtags=('kv',), tags=('bare',) if form != 'plain' else (), form=form, nvals=1 if packed else None), k))
    nproc = max(1, (os.cpu_count() or 4) - 1)
    chunk = max(4, len(work) // (nproc * 6))
    chunks = [work[i:i + chunk] for i in range(0, len(work), chunk)]
    timeout_ms = 600000 if thorough else 60000
    ctx = mp.get_context('fork')
    with ctx.Pool(nproc) as pool:
        res = pool.map(_job, [(c, timeout_ms, out.seed) for c in chunks], chunksize=1)
    tot = {'total': 0, 'sat': 0, 'unsat': 0, 'unknown': 0}
    st = 0.0
    fns, stubs_, env = set(), set(), set()
    counters = {'obligations': 0, 'paths': 0, 'runs': 0, 'emitting_paths': 0, 'rejecting_paths': 0}
    findings, samples, steps = [], [], 0
    backend = {}
    for r in res:
        if r['error']:
            raise Unsupported(r['error'])
        stateful = r['counters'].get('stateful', 0)
        if stateful:
            out.notes.append('a metric call writes shared state of the client (interior mutability): single-call obligations alone do not cover call sequences')
        tot['total'] += r['queries']
        tot['sat'] += r['sat']
        tot['unsat'] += r['unsat']
        tot['unknown'] += r['unknown']
        st += r['solver_time']
        steps += r['steps']
        fns |= set(r['functions'])
        stubs_ |= set(r['stubs'])
        env |= set(r['env'])
        for k in counters:
            counters[k] += r['counters'][k]
        findings += r['findings']
        samples += r['samples'][:1]
        for k, v in r['backend'].items():
            backend[k] = backend.get(k, 0) + v
    if counters['emitting_paths'] == 0 or counters['rejecting_paths'] == 0:
        raise Unsupported('vacuous: no emitting or no rejecting path was explored')
    mine = [f for f in findings if f['prop'] == pid]
    others = [f for f in findings if f['prop'] != pid]
    confirmed, replayed = [], 0
    if findings:
        ordered = [f for f in mine + others if f['scenario'] is not None]
        # distinct scenarios only
        seen, todo = set(), []
        for f in ordered:
            k = json.dumps(f['scenario'], sort_keys=True)
            if k not in seen:
                seen.add(k)
                todo.append(f)
        todo = todo[:400]
        for prof in (['dev', 'release'] if thorough else ['dev']):
            outs = replay.run_scenarios([f['scenario'] for f in todo], profile=prof)
            replayed += len(todo)
            for f, o in zip(todo, outs):
                hit = [v for v in o.get('violations', []) if v['prop'] == pid]
                if hit:
                    confirmed.append((f, hit, prof))
            if confirmed:
                break
    out.evidence = {
        'level': 'model_checking',
        'assumptions': ASSUMPTIONS,
        'coverage': {
            'states': counters['paths'], 'transitions': steps, 'paths': counters['paths'], 'mir_steps': steps,
            'traces_validated_against_impl': replayed,
            'obligations': counters['obligations'], 'discharged': counters['obligations'] - len(findings),
            'queries': tot, 'evaluations': tot['total'], 'distinct_nontrivial': counters['paths'],
            'rule': 'one case = one feasible symbolic path of one (entry point, call form, section structure); strings are atoms of '
                    'symbolic length, numbers 64-bit symbolic; every path ends in solver-discharged obligations; distinct by construction',
            'solver_time_s': round(st, 2), 'solver_backends': backend,
            'functions_encoded': sorted(fns), 'stubs': sorted(stubs_), 'environment_calls': sorted(env),
            'bounds': {'entry_points': len(eps), 'structures_run': counters['runs'],
                       'call_tags': '<= %d' % (3 if thorough else 2), 'default_tags': '<= 2', 'packed_values': '0..%d' % (4 if thorough else 2),
                       'strings': 'any length < 2^47, any content (opaque atoms)', 'numbers': 'full 64/32-bit ranges, all f64 bit patterns, Durations 0..=max',
                       'outside': 'more tags / values than the bound; digit generation inside core::fmt; macro call form (see C17)'},
            'vacuity': {'emitting_paths': counters['emitting_paths'], 'rejecting_paths': counters['rejecting_paths']},
            'mir': dinfo,
            'samples': samples[:6] or [{'note': 'no emitting path sampled'}],
        },
    }
    if confirmed:
        seen = set()
        for f, hit, prof in confirmed:
            key = hit[0]['clause']
            if key in seen:
                continue
            seen.add(key)
            sc = dict(f['scenario'])
            sc['native_profile'] = prof
            out.violations.append({'key': 'client:%s:%s' % (hit[0]['clause'], ','.join(sc['entry'])), 'what': '%s: %s' % (hit[0]['clause'], hit[0]['detail']),
                                   'scenario': sc, 'native': hit})
            if len(out.violations) >= 3:
                break
        return
    if mine:
        out.inconclusive.append('the solver reports a violation of %s (%s: %s) but no generated call reproduces it natively' % (
            pid, mine[0]['clause'], str(mine[0]['detail'])[:300]))
    elif others:
        out.notes.append('%d obligations of other properties (%s) are violated on this tree' % (len(others), sorted(set(f['prop'] for f in others))))


def run(out, replay_path=None):
    if replay_path:
        sc = json.load(open(replay_path))
        res = replay.run_scenarios([sc])[0]
        hit = [v for v in res.get('violations', []) if v['prop'] == out.pid]
        out.evidence = {'coverage': {'traces_validated_against_impl': 1, 'samples': [sc], 'explanation': 'replay only'}}
        if hit:
            out.violations.append({'key': None, 'what': hit[0]['detail'], 'scenario': sc, 'native': hit})
        return
    run_family(out, ('C01', 'C02', 'C03', 'C04', 'C20'))
