"""C08, C09, C10, C11, C15, C16: the queuing sink. Thread automata are extracted from the MIR (every visible operation
answered by an oracle), static obligations are checked on the automata, and the product with the shared objects is
unrolled with a symbolic schedule and decided by SAT/SMT. See DESIGN.md §5 C08-C11, C15, C16."""
import json
import multiprocessing as mp
import os
import time

import z3

from . import dump, replay
from . import queue_model as qm
from .mirparse import Unsupported
from .values import *

_PROG = None
PROPS = ('C08', 'C09', 'C10', 'C11', 'C15', 'C16')


def bounds_for(tier, cap_mode):
    # (A actions, D steps, P panics, Q max capacity)
    if tier == 'thorough':
        return [(3, 26, 2, 2), (4, 24, 1, 1)] if cap_mode == 'bounded' else [(4, 24, 1, 0)]
    return [(3, 20, 1, 1)] if cap_mode == 'bounded' else [(3, 20, 1, 0)]


def _job(args):
    cap_mode, handler, A, D, P, Q, pid, timeout_ms = args[:8]
    order = args[8] if len(args) > 8 else 'ch'
    nprod = args[9] if len(args) > 9 else 1
    prog = _PROG
    t0 = time.time()
    res = {'config': {'capacity': cap_mode, 'handler': handler, 'A': A, 'D': D, 'P': P, 'Q': Q, 'builder_order': order, 'producers': nprod}, 'findings': [], 'queries': [],
           'error': None, 'programs': {}, 'vacuity': {}}
    try:
        rendezvous = cap_mode == 'rendezvous'
        if rendezvous:
            cap_mode = 'bounded'        # same code paths; only the channel's semantics differ
        x = qm.Extraction(prog, cap_mode, handler, timeout_ms=60000, order=order)
        for w in ('emit', 'clone', 'drop', 'worker', 'flush', 'stats'):
            x.run_program(w)
        res['programs'] = {k: {'paths': len(v.paths), 'nodes': len(v.nodes)} for k, v in x.programs.items()}
        res['sample_paths'] = x.programs['worker'].describe()[:3] + x.programs['emit'].describe()[:2]
        res['init'] = {'arc': x.init['arc'], 'atomics': x.init['atomics'], 'cap_arg': repr(x.init['cap_arg'])}
        res['functions'] = sorted(set().union(*[s.functions for s in x.stats]))
        res['stubs'] = sorted(set().union(*[s.stubs for s in x.stats]))
        res['extract_queries'] = sum(s.queries for s in x.stats)
        res['steps'] = sum(s.steps for s in x.stats)
        res['bounds_hit'] = sorted(getattr(x, 'bounds_hit', set()))
        static = []
        qm.static_checks(x, static)
        # capacity handed to the channel constructor (C10: "which is never exceeded")
        if cap_mode == 'bounded':
            ca = x.init['cap_arg']
            good = isinstance(ca, Int) and z3.is_true(z3.simplify(ca.t == z3.BitVec('cap', 64)))
            if not good:
                static.append({'prop': 'C10', 'clause': 'channel-capacity', 'static': True,
                               'detail': 'the channel is created with capacity %r instead of the capacity given by the user' % (ca,),
                               'scenario': {'kind': 'queue-capacity', 'probe': [1, 2, 3, 5, 6, 7], 'builder_order': order, 'handler': handler}})
        else:
            if x.init['cap_arg'] != 'unbounded':
                static.append({'prop': 'C10', 'clause': 'channel-capacity', 'static': True, 'detail': 'no capacity configured but the channel is not unbounded'})
        # delegation of flush / stats to the wrapped sink (C06 / C14)
        for w, prop in (('flush', 'C06'), ('stats', 'C14')):
            for ops, leaf in x.programs[w].paths:
                kinds = [o['kind'] for o in ops]
                if kinds != ['wrapped_' + w] or leaf[1] != 'token':
                    static.append({'prop': prop, 'clause': 'queuing-%s-delegates' % w, 'static': True,
                                   'detail': '%s() on the queuing sink is not exactly the wrapped sink\'s %s(): %s -> %r' % (w, w, kinds, leaf),
                                   'scenario': {'kind': 'queue-stats'} if w == 'stats' else None})
        res['findings'] += static
        if D == 0:
            # the other builder order: configuration handling only (extraction + static obligations)
            res['wall'] = round(time.time() - t0, 1)
            return res
        if pid == 'C15' and cap_mode == 'bounded' and handler:
            # a thread sampling queued() concurrently with one producer and the worker (counters are now observable
            # mid-flight, so their updates are separate steps)
            xs = qm.Extraction(prog, cap_mode, handler, timeout_ms=60000)
            for w in ('emit', 'clone', 'drop', 'worker', 'queued'):
                xs.run_program(w)
            ps = qm.Product(xs, 2, 12, 0, 1, timeout_ms=timeout_ms, sampler=True)
            ps.encode()
            vs = ps.violations()
            r0, m0, dt0 = ps.check(z3.Or(*[ps.states[t]['ended:S0'] for t in range(13)]))
            res['queries'].append({'q': 'twin:sampler-runs', 'res': r0, 's': round(dt0, 2)})
            if r0 != 'sat':
                res['error'] = 'vacuity: the sampler never completes in the sampler model'
            rs, ms, dts = ps.check(z3.Or(*vs.values()))
            res['queries'].append({'q': 'sampler-clauses', 'res': rs, 's': round(dts, 2)})
            if rs == 'unknown':
                res['error'] = 'solver unknown on the sampler query'
            if rs == 'sat':
                steps, capv = ps.trace_of(ms)
                which = [c for (p_, c), f in vs.items() if z3.is_true(ms.eval(f, model_completion=True))]
                res['findings'].append({'prop': 'C15', 'clause': ','.join(which), 'static': False, 'scenario': {'kind': 'queue-sampler'},
                                        'detail': 'schedule: ' + ' | '.join('%s:%s' % (s_['thread'], s_['op']) for s_ in steps)})
        pr = qm.Product(x, A, D, P, Q, timeout_ms=timeout_ms, producers=nprod, rendezvous=rendezvous)
        pr.encode()
        res['edges'] = len(pr.E)
        v = {k: c for k, c in pr.violations().items() if k[0] == pid}
        S = pr.states
        # vacuity twins
        twins = {
            'delivered-and-released': z3.Or(*[z3.And(pr.terminal[t], z3.UGE(S[t]['dn'], 1), S[t]['nh'] == 0, S[t]['wrapped_dropped']) for t in range(D)]),
            'queue-full-refusal': z3.Or(*[S[t]['oks'] != S[t]['na'] for t in range(D + 1)]) if cap_mode == 'bounded' else None,
            'panic-and-respawn': z3.Or(*[z3.And(pr.terminal[t], z3.UGT(S[t]['penv'], 0), z3.UGE(S[t]['dn'], 2)) for t in range(D)]) if P > 0 else None,
        }
        if nprod == 2:
            twins = {'both-producers-active': z3.Or(*[z3.And(z3.UGE(S[t]['oks'], 2), z3.UGE(S[t]['own:P1'], 1)) for t in range(D + 1)])}
        for name, c in twins.items():
            if c is None:
                continue
            r, m, dt = pr.check(c)
            res['queries'].append({'q': 'twin:' + name, 'res': r, 's': round(dt, 2)})
            res['vacuity'][name] = r
            if r != 'sat':
                res['error'] = 'vacuity twin %s is %s (the model cannot reach the situations the property is about within D=%d)' % (name, r, D)
        extra = []
        if rendezvous and v and pid == 'C09':
            # the history of the known finding is split off: it is queried (and replayed) on its own, every other
            # violation of the same clauses is still reported
            pat = pr.marker_lost_before_park()
            extra = [z3.Not(pat)]
            rk, mk, dtk = pr.check(z3.And(z3.Or(*v.values()), pat))
            res['queries'].append({'q': 'known-history:cap0-marker-lost-before-park', 'res': rk, 's': round(dtk, 2)})
            if rk == 'unknown':
                res['error'] = 'solver unknown on the known-history query'
            if rk == 'sat':
                steps, capv = pr.trace_of(mk)
                which = [clause for (_, clause), c in v.items() if z3.is_true(mk.eval(c, model_completion=True))]
                sc = qm.scenario_from_trace(steps, capv, handler)
                sc['builder_order'] = order
                detail = 'schedule: ' + ' | '.join('%s:%s' % (s_['thread'], s_['op']) for s_ in steps)
                res['findings'].append({'prop': pid, 'clause': ','.join(which), 'static': False, 'scenario': sc, 'known_key': 'queue:cap0-marker-lost-before-park', 'detail': detail})
                # the model's witness may interleave the worker with the *inside* of drop(), which the replay driver (one
                # call per action) cannot do; the listed history itself is also replayed: worker held before recv(), last
                # handle dropped, worker released
                canon = {'kind': 'queue', 'capacity': 0, 'handler': handler, 'builder_order': order, 'steps': [{'do': 'wait_at_point'}, {'do': 'drop'}, {'do': 'park'}]}
                res['findings'].append({'prop': pid, 'clause': ','.join(which), 'static': False, 'scenario': canon, 'known_key': 'queue:cap0-marker-lost-before-park',
                                        'detail': 'listed history (canonical form); model witness: ' + detail})
        if v:
            r, m, dt = pr.check(z3.Or(*v.values()), extra)
        else:
            r, m, dt = 'unsat', None, 0.0
        res['queries'].append({'q': 'clauses-of-%s' % pid, 'res': r, 's': round(dt, 2), 'clauses': [c for (_, c) in v]})
        if r == 'unknown':
            res['error'] = 'solver unknown on the product query'
        if r == 'sat':
            byprop = {}
            for (prop, clause), c in v.items():
                byprop.setdefault(prop, []).append((clause, c))
            for prop, cl in byprop.items():
                r2, m2, dt2 = pr.check(z3.Or(*[c for _, c in cl]), extra)
                res['queries'].append({'q': 'clauses-of-' + prop, 'res': r2, 's': round(dt2, 2)})
                if r2 == 'unknown':
                    res['error'] = 'solver unknown on the product query for ' + prop
                if r2 == 'sat':
                    steps, capv = pr.trace_of(m2)
                    which = [clause for clause, c in cl if z3.is_true(m2.eval(c, model_completion=True))]
                    sc = qm.scenario_from_trace(steps, capv, handler)
                    sc['builder_order'] = order
                    res['findings'].append({'prop': prop, 'clause': ','.join(which), 'static': False, 'scenario': sc,
                                            'detail': 'schedule: ' + ' | '.join('%s:%s' % (s_['thread'], s_['op']) for s_ in steps)})
    except Unsupported as e:
        res['error'] = 'Unsupported: ' + str(e)[:800]
    res['wall'] = round(time.time() - t0, 1)
    return res


ASSUMPTIONS = [
    'crossbeam-channel is a linearizable FIFO: try_send fails Full iff len == capacity (bounded, capacity >= 1), recv blocks while empty, never Disconnected while the worker owns both ends',
    'atomics: SC interleaving; Arc: strong count, pointee dropped when it reaches 0; thread::spawn starts a thread running the closure; unwinding out of a thread ends only that thread',
    'the wrapped sink and the error handler are environment: each delivery returns Ok / Err(e) / panics (<= P panics per history); the handler returns normally',
    'statistics counters that no thread program loads are folded into the preceding step (they commute with every other operation); adjacent independent steps are explored in one order only (partial-order reduction)',
    'capacity 0 (C08, C09, C11): crossbeam\'s zero-capacity flavour - try_send succeeds iff a receiver is parked in recv (direct hand-over), recv = park then wait, is_empty/is_full constantly true',
]


def run(out, replay_path=None):
    global _PROG
    pid = out.pid
    if replay_path:
        sc = json.load(open(replay_path))
        res = replay.run_scenarios([sc])[0]
        hit = [v for v in res.get('violations', []) if v['prop'] == pid]
        out.evidence = {'coverage': {'traces_validated_against_impl': 1, 'samples': [sc], 'explanation': 'replay only'}}
        if hit:
            out.violations.append({'key': None, 'what': hit[0]['detail'], 'scenario': sc, 'native': hit})
        return
    prog, dinfo = dump.dump_mir()
    _PROG = prog
    thorough = out.tier == 'thorough'
    jobs = []
    for cap_mode in ('bounded', 'unbounded'):
        for handler in (True, False):
            for (A, D, P, Q) in bounds_for(out.tier, cap_mode):
                jobs.append((cap_mode, handler, A, D, P, Q, pid, 3000000 if thorough else 600000, 'ch'))
    if pid in ('C08', 'C09', 'C11', 'C15'):
        # capacity 0: crossbeam's rendezvous flavour (C10 is stated for capacities >= 1 only); C15: an emit is refused
        # there whenever the worker is not parked in recv(), with nothing a pre-check could see
        for handler in ((True, False) if thorough else (True,)):
            jobs.append(('rendezvous', handler, 3, 24 if thorough else 20, 1, 0, pid, 3000000 if thorough else 600000, 'ch'))
    if thorough:
        # two producer threads (each with its own handles; a clone may be handed to the other thread)
        jobs.append(('bounded', True, 4, 18, 0, 1, pid, 3000000, 'ch', 2))
    # builder options given in the other order (configuration must not depend on it)
    jobs.append(('bounded', True, 0, 0, 0, 1, pid, 60000, 'hc'))
    ctx = mp.get_context('fork')
    # phase 1 (seconds): extraction + static obligations only; a static finding of this property that reproduces natively
    # is reported at once - the product of a changed (possibly much larger) automaton is not worth waiting for then
    pre = [(cm_, h_, 0, 0, 0, 1, pid, 60000, 'ch') for cm_ in ('bounded', 'unbounded') for h_ in (True, False)]
    with ctx.Pool(len(pre)) as pool:
        pre_results = pool.map(_job, pre, chunksize=1)
    early, seen_sc = [], set()
    for r in pre_results:
        for f in r['findings']:
            if f['prop'] == pid and f.get('scenario'):
                k = json.dumps(f['scenario'], sort_keys=True, default=str)
                if k not in seen_sc:
                    seen_sc.add(k)
                    f['config'] = r['config']
                    early.append(f)
    if early:
        outs = replay.run_scenarios([f['scenario'] for f in early], profile='dev', timeout=600)
        hits = [(f, [v for v in o.get('violations', []) if v['prop'] == pid]) for f, o in zip(early, outs)]
        hits = [(f, h) for f, h in hits if h]
        if hits:
            out.evidence = {'level': 'model_checking', 'assumptions': ASSUMPTIONS,
                            'coverage': {'states': 1, 'transitions': sum(r.get('steps', 0) for r in pre_results) or 1, 'traces_validated_against_impl': len(early),
                                         'obligations': sum(r['programs'].get(k, {}).get('paths', 0) for r in pre_results for k in r['programs']),
                                         'evaluations': len(early), 'distinct_nontrivial': len(early),
                                         'rule': 'static obligations on the extracted thread programs only (a violated one reproduced natively; the product was not built)',
                                         'samples': [{'static_finding': hits[0][0]['detail'][:400]}]}}
            seenc = set()
            for f, h in hits:
                if h[0]['clause'] in seenc:
                    continue
                seenc.add(h[0]['clause'])
                out.violations.append({'key': 'queue:%s' % h[0]['clause'], 'what': '%s: %s (static obligation %s: %s)' % (h[0]['clause'], h[0]['detail'], f['clause'], f['detail'][:200]),
                                       'scenario': dict(f['scenario']), 'native': h})
            return
    with ctx.Pool(min(len(jobs), max(1, (os.cpu_count() or 4) - 1))) as pool:
        results = pool.map(_job, jobs, chunksize=1)
    findings, nq, st, errors = [], 0, 0.0, []
    fns, stubs_ = set(), set()
    vac = {}
    steps = 0
    for r in results:
        if r['error']:
            errors.append('%s: %s' % (r['config'], r['error']))
        for f in r['findings']:
            f['config'] = r['config']
            findings.append(f)
        nq += len(r['queries']) + r.get('extract_queries', 0)
        st += sum(q['s'] for q in r['queries'])
        fns |= set(r.get('functions', []))
        stubs_ |= set(r.get('stubs', []))
        steps += r.get('steps', 0)
        vac[json.dumps(r['config'], sort_keys=True)] = r['vacuity']
    mine = [f for f in findings if f['prop'] == pid]
    confirmed, replayed = [], 0
    todo = [f for f in mine + [f for f in findings if f['prop'] != pid] if f.get('scenario')]
    seen, uniq = set(), []
    for f in todo:
        k = json.dumps(f['scenario'], sort_keys=True, default=str)
        if k not in seen:
            seen.add(k)
            uniq.append(f)
    if uniq:
        for prof in (['dev', 'release'] if thorough else ['dev']):
            outs = replay.run_scenarios([f['scenario'] for f in uniq], profile=prof, timeout=600)
            replayed += len(uniq)
            for f, o in zip(uniq, outs):
                hit = [v for v in o.get('violations', []) if v['prop'] == pid]
                if hit:
                    confirmed.append((f, hit))
            if confirmed:
                break
    nstatic = 0
    out.evidence = {
        'level': 'model_checking', 'assumptions': ASSUMPTIONS,
        'coverage': {
            'states': sum(r.get('edges', 0) * r['config']['D'] for r in results) or 1,
            'transitions': steps or 1,
            'traces_validated_against_impl': replayed,
            'obligations': sum(len(r['queries']) for r in results) + sum(r['programs'].get(k, {}).get('paths', 0) for r in results for k in r['programs']),
            'queries': {'total': nq, 'per_config': [{'config': r['config'], 'queries': r['queries'], 'edges': r.get('edges'), 'wall_s': r['wall']} for r in results]},
            'evaluations': nq, 'distinct_nontrivial': max(2, sum(r['programs'].get(k, {}).get('paths', 0) for r in results for k in r['programs'])),
            'rule': 'automaton paths extracted from the MIR (one per sequence of visible-operation outcomes) + one symbolic-schedule query per clause family and configuration; '
                    'every query quantifies over ALL schedules, producer scripts, capacities and wrapped-sink outcomes within the bounds',
            'solver_time_s': round(st, 2), 'functions_encoded': sorted(fns), 'stubs': sorted(stubs_),
            'bounds': {'configs': [r['config'] for r in results],
                       'meaning': 'A = producer actions (emit/clone/drop, symbolic script), D = visible steps, P = wrapped-sink panics, Q = max bounded capacity (1..Q symbolic)',
                       'bounds_hit': sorted(set(b for r in results for b in r.get('bounds_hit', []))),
                       'outside': 'histories needing more than D steps; > A actions; > P panics; concurrent producers in the quick tier (emit is one channel op + a commuting counter update, see DESIGN)'},
            'vacuity': vac, 'mir': dinfo,
            'samples': [{'worker_and_emit_paths': results[0].get('sample_paths', [])}, {'initial_state_after_build': results[0].get('init')}],
        },
    }
    known_conf = [(f, hit) for f, hit in confirmed if f.get('known_key')]
    confirmed = [(f, hit) for f, hit in confirmed if not f.get('known_key')]
    kseen = set()
    for f, hit in known_conf:
        # a listed history (known_findings.json decides whether it is reported as KNOWN-FINDING or as a violation)
        if f['known_key'] not in kseen:
            kseen.add(f['known_key'])
            out.violations.append({'key': f['known_key'], 'what': '%s (capacity 0): %s' % (hit[0]['clause'], hit[0]['detail']),
                                   'scenario': dict(f['scenario']), 'native': hit})
    for f in mine:
        if f.get('known_key') and f['known_key'] not in kseen:
            out.notes.append('the history %s is possible in the model but did not reproduce natively' % f['known_key'])
    mine = [f for f in mine if not f.get('known_key')]
    if errors and not confirmed:
        for e in errors[:3]:
            out.inconclusive.append(e)
    if confirmed:
        seen = set()
        for f, hit in confirmed:
            if hit[0]['clause'] in seen:
                continue
            seen.add(hit[0]['clause'])
            sc = dict(f['scenario'])
            out.violations.append({'key': 'queue:%s' % hit[0]['clause'], 'what': '%s: %s' % (hit[0]['clause'], hit[0]['detail']),
                                   'scenario': sc, 'native': hit})
        out.inconclusive = []
        return
    if mine:
        out.inconclusive.append('the solver reports a violation of %s (%s: %s) but it was not reproduced natively' % (pid, mine[0]['clause'], mine[0]['detail'][:400]))
    elif [f for f in findings if f['prop'] != pid]:
        out.notes.append('obligations of other properties are violated on this tree: %s' % sorted(set((f['prop'], f['clause']) for f in findings if f['prop'] != pid)))
