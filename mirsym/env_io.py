"""Environment models for I/O: std::io::BufWriter (algorithmic stub), the underlying
all-or-nothing writer / datagram socket, io::Error tokens, Mutex.

BufWriter follows library/std/src/io/buffered/bufwriter.rs (write / write_cold /
flush_buf / flush / Drop); the stub is compared with the real type by `replay model-diff`.
"""
import z3

from .mirparse import Unsupported
from .values import *
from .executor import Explorer, Unwinding, PathCut
from . import stubs
from .stubs import ok, err, stub, as_str, is_variant

U64 = lambda n: z3.BitVecVal(n, 64)

# ErrorKind discriminants we distinguish (others are "Other")
EK_INTERRUPTED = 1
EK_WOULDBLOCK = 2
EK_OTHER = 0


def io_error(ex, label, kind_term=None):
    if kind_term is None:
        kind_term = ex.fresh('ekind', 8)
    return Native('IoError', (label, kind_term), fresh_id())


class Content:
    """What a BufWriter currently holds: an optional abstract prefix of whole lines
    (`prefix_bytes` term, may be 0) followed by concrete chunks (Str values)."""

    def __init__(self, prefix_bytes=None, chunks=()):
        self.prefix_bytes = prefix_bytes
        self.chunks = tuple(chunks)

    def total(self):
        t = self.prefix_bytes if self.prefix_bytes is not None else U64(0)
        for c in self.chunks:
            t = t + c.length()
        return z3.simplify(t)

    def append(self, s: Str):
        return Content(self.prefix_bytes, self.chunks + (s,))

    def __repr__(self):
        return 'Content(L=%s, %r)' % (self.prefix_bytes, self.chunks)


def new_bufwriter(cap_term, inner_cell, content=None):
    return Native('BufWriter', (cap_term, inner_cell, content or Content(), False), fresh_id())


def _bw(ex, ref):
    v = ex.load(ref) if isinstance(ref, Ref) else ref
    if not (isinstance(v, Native) and v.rty == 'BufWriter'):
        raise Unsupported('not a BufWriter: %r' % (v,))
    return v


def _set_bw(ex, ref, cap, inner, content, panicked):
    old = ex.load(ref)
    ex.store(ref, Native('BufWriter', (cap, inner, content, panicked), old.ident))


def inner_write(ex, inner_cell, data, how):
    """One write attempt on the underlying writer. `data` is a Content or a Str.
    Returns Result<usize> value. All-or-nothing: Ok(len) or Err(e)."""
    w = inner_cell.v
    if isinstance(w, Native):
        h = ex.natives.get(w.rty, {}).get('Write::write')
        if h is None:
            raise Unsupported('underlying writer %s has no Write::write model' % w.rty)
        return h(ex, [Ref(inner_cell, (), True), data], how)
    # a writer implemented in the crate (the sinks' write adapters): run its MIR on the bytes
    name = ex.prog.find_impl_method('write', ex.rtype(w), 'Write')
    if name is None:
        raise Unsupported('no Write::write for %s' % ex.rtype(w))
    return ex.call(name, [Ref(inner_cell, (), True), content_as_bytes(data)])


def content_as_bytes(data) -> Str:
    if isinstance(data, Str):
        return data.as_type('bytes')
    pieces = []
    if data.prefix_bytes is not None:
        pieces.append(Atom('L', data.prefix_bytes))
    for c in data.chunks:
        pieces += list(c.pieces)
    return Str(tuple(pieces), 'bytes')


MAX_INTERRUPTED = 2


def flush_buf(ex, ref, how):
    """BufWriter::flush_buf. Returns Result<()>."""
    cap, inner, content, panicked = _bw(ex, ref).state
    total = content.total()
    retries = 0
    while True:
        if not ex.choose_bool(z3.UGT(total, 0)):      # guard.done()
            return ok(UNIT)
        # self.panicked = true; r = inner.write(remaining); self.panicked = false
        r = inner_write(ex, inner, content, how)
        if is_variant(r, 'Ok'):
            n = r.fields[0]
            # all-or-nothing contract of the underlying writer
            ex.assume(n.t == total)
            content = Content()
            total = U64(0)
            _set_bw(ex, ref, cap, inner, content, False)
            continue
        e = r.fields[0]
        kind = e.state[1]
        if ex.choose_bool(kind == EK_INTERRUPTED):
            retries += 1
            if retries > MAX_INTERRUPTED:
                raise PathCut('more than %d consecutive Interrupted results in one flush_buf' % MAX_INTERRUPTED)
            continue
        return err(e)


def bw_write_to_buffer(ex, ref, buf: Str):
    cap, inner, content, panicked = _bw(ex, ref).state
    _set_bw(ex, ref, cap, inner, content.append(buf), panicked)


def bw_write(ex, args, callee):
    ref, buf = args[0], as_str(ex, args[1])
    cap, inner, content, panicked = _bw(ex, ref).state
    blen = buf.length()
    spare = cap.t - content.total()
    if ex.choose_bool(z3.ULT(blen, spare)):
        bw_write_to_buffer(ex, ref, buf)
        return ok(Int(blen, 'usize'))
    # write_cold
    if ex.choose_bool(z3.UGT(blen, spare)):
        r = flush_buf(ex, ref, 'bufwriter-flush_buf(write_cold)')
        if is_variant(r, 'Err'):
            return r
    cap, inner, content, panicked = _bw(ex, ref).state
    if ex.choose_bool(z3.UGE(blen, cap.t)):
        return inner_write(ex, inner, buf, 'bufwriter-direct(write_cold)')
    bw_write_to_buffer(ex, ref, buf)
    return ok(Int(blen, 'usize'))


def bw_write_all(ex, args, callee):
    """BufWriter::write_all (bufwriter.rs): buffer when it fits, else write_all_cold = flush_buf when it does not fit in
    the spare room, then either the underlying writer's write_all (default loop: Interrupted retried, all-or-nothing
    writer so one accepted attempt ends it) or the buffer."""
    ref, buf = args[0], as_str(ex, args[1])
    cap, inner, content, panicked = _bw(ex, ref).state
    blen = buf.length()
    spare = cap.t - content.total()
    if ex.choose_bool(z3.ULT(blen, spare)):
        bw_write_to_buffer(ex, ref, buf)
        return ok(UNIT)
    if ex.choose_bool(z3.UGT(blen, spare)):
        r = flush_buf(ex, ref, 'bufwriter-flush_buf(write_all_cold)')
        if is_variant(r, 'Err'):
            return r
    cap, inner, content, panicked = _bw(ex, ref).state
    if ex.choose_bool(z3.UGE(blen, cap.t)):
        retries = 0
        while True:
            r = inner_write(ex, inner, buf, 'bufwriter-direct(write_all_cold)')
            if is_variant(r, 'Ok'):
                ex.assume(r.fields[0].t == blen)
                return ok(UNIT)
            e = r.fields[0]
            if ex.choose_bool(e.state[1] == EK_INTERRUPTED):
                retries += 1
                if retries > MAX_INTERRUPTED:
                    raise PathCut('more than %d consecutive Interrupted results in one write_all' % MAX_INTERRUPTED)
                continue
            return r
    bw_write_to_buffer(ex, ref, buf)
    return ok(UNIT)


def bw_flush(ex, args, callee):
    ref = args[0]
    r = flush_buf(ex, ref, 'bufwriter-flush')
    if is_variant(r, 'Err'):
        return r
    cap, inner, content, panicked = _bw(ex, ref).state
    w = inner.v
    if isinstance(w, Native):
        h = ex.natives.get(w.rty, {}).get('Write::flush')
        if h is None:
            return ok(UNIT)
        return h(ex, [Ref(inner, (), True)], callee)
    name = ex.prog.find_impl_method('flush', ex.rtype(w), 'Write')
    if name is None:
        raise Unsupported('no Write::flush for %s' % ex.rtype(w))
    return ex.call(name, [Ref(inner, (), True)])


def bw_get_mut(ex, args, callee):
    cap, inner, content, panicked = _bw(ex, args[0]).state
    return Ref(inner, (), True)


def bw_get_ref(ex, args, callee):
    cap, inner, content, panicked = _bw(ex, args[0]).state
    return Ref(inner, (), False)


def bw_drop(ex, v):
    cap, inner, content, panicked = v.state
    c = Cell(v, 'bufwriter-drop')
    if not panicked:
        flush_buf(ex, Ref(c, (), True), 'bufwriter-drop')
    inner_v = inner.v
    ex.drop_value(inner_v)


@stub('BufWriter::with_capacity')
def bw_with_capacity(ex, args, callee):
    return new_bufwriter(args[0], Cell(args[1], 'bufwriter-inner'))


@stub('BufWriter::new')
def bw_new(ex, args, callee):
    # std's DEFAULT_BUF_SIZE
    return new_bufwriter(mk_int(8192, 'usize'), Cell(args[0], 'bufwriter-inner'))


def install(ex: Explorer):
    ex.stubs['BufWriter::new'] = bw_new
    ex.natives['BufWriter'] = {
        'Write::write': bw_write,
        'Write::flush': bw_flush,
        'get_mut': bw_get_mut,
        'get_ref': bw_get_ref,
        'drop': bw_drop,
    }
    ex.stubs['<BufWriter as Write>::write'] = bw_write
    ex.stubs['<BufWriter as Write>::flush'] = bw_flush
    ex.stubs['<BufWriter as Write>::write_all'] = bw_write_all
    ex.stubs['BufWriter::get_mut'] = bw_get_mut
    ex.stubs['BufWriter::get_ref'] = bw_get_ref
    ex.stubs['BufWriter::with_capacity'] = bw_with_capacity
    ex.natives['EnvWriter'] = {
        'Write::write': env_writer_write,
        'Write::flush': lambda ex, args, callee: ok(UNIT),
    }


def env_writer_write(ex, args, how):
    """All-or-nothing underlying writer: Ok(len) or Err(e) - a fresh choice per attempt."""
    data = args[1]
    if isinstance(data, Content):
        total = data.total()
        snap = ('content', data.prefix_bytes, data.chunks)
    else:
        data = as_str(ex, data)
        total = data.length()
        snap = ('direct', None, (data,))
    w = ex.load(args[0])
    allow_fail = w.state.get('faults', True) if isinstance(w.state, dict) else True
    budget = getattr(ex, 'fault_budget', None)
    script = getattr(ex, 'fault_script', None)
    if script is not None:
        k = ex.out.get('attempt_no', 0)
        ex.out['attempt_no'] = k + 1
        failed = bool(script[k]) if k < len(script) else False
    elif allow_fail and (budget is None or ex.out.get('faults_used', 0) < budget):
        fail = ex.fresh('wfail', 'bool')
        failed = ex.choose([z3.Not(fail), fail], free=True) == 1
    else:
        failed = False
    if failed:
        ex.out['faults_used'] = ex.out.get('faults_used', 0) + 1
        e = io_error(ex, 'write-attempt-%d' % len([x for x in ex.events if x[0] == 'wire']),
                     z3.BitVecVal(EK_OTHER, 8) if script is not None else None)
        ex.events.append(('wire', snap, total, 'err', e, how))
        return err(e)
    ex.events.append(('wire', snap, total, 'ok', None, how))
    return ok(Int(total, 'usize'))


@stub('Error::kind', 'io::Error::kind', 'std::io::Error::kind')
def io_error_kind(ex, args, callee):
    e = ex.deref_all(args[0])
    if not (isinstance(e, Native) and e.rty == 'IoError'):
        raise Unsupported('Error::kind of %r' % (e,))
    return Native('ErrorKind', e.state[1])


@stub('Error::new', 'io::Error::new', 'std::io::Error::new')
def io_error_new(ex, args, callee):
    k = args[0]
    label = as_str(ex, args[1]) if not isinstance(args[1], Native) else args[1]
    kt = k.state if isinstance(k, Native) and k.rty == 'ErrorKind' else z3.BitVecVal(EK_OTHER, 8)
    return Native('IoError', (('new', repr(label)), kt), fresh_id())
