"""C01/C03/C04 (+ C02's rendering part, C13, C20): metric calls on a StatsdClient.

The client is built by executing the builder's own MIR; strings are opaque atoms of symbolic
length, numbers are bit-vectors, the sink and the error handler are environment objects whose
calls land in the event log with symbolic outcomes.
"""
import itertools
import time
import z3

from .mirparse import Unsupported
from .values import *
from .executor import Explorer, Unwinding, PathCut
from . import stubs, env_io
from .stubs import ok, err, is_variant, as_str, some, NONE, stub
from .env_io import io_error

# --------------------------------------------------------------------------------------
# entry-point table (parsed from the MetricClient supertrait list in client.rs)
# --------------------------------------------------------------------------------------

KIND_OF_TRAIT = {
    'Counted': ('count', 'c', 'Counter'), 'Timed': ('time', 'ms', 'Timer'), 'Gauged': ('gauge', 'g', 'Gauge'),
    'Metered': ('meter', 'm', 'Meter'), 'Histogrammed': ('histogram', 'h', 'Histogram'),
    'Distributed': ('distribution', 'd', 'Distribution'), 'Setted': ('set', 's', 'Set'),
}


def entry_points(prog):
    """[(trait, value type, method, type code, metric type)] from `pub trait MetricClient: A<T> + ...`."""
    import os, re
    for crate, root in prog.src_roots.items():
        p = os.path.join(root, 'cadence', 'src', 'client.rs')
        if os.path.exists(p):
            txt = open(p).read()
            m = re.search(r'pub trait MetricClient:\s*(.*?)\{', txt, re.S)
            if not m:
                raise Unsupported('MetricClient supertrait list not found')
            body = re.sub(r'//[^\n]*', '', m.group(1))
            eps = []
            from .mirparse import split_top
            for item in split_top(body.replace('\n', ' '), '+'):
                item = item.strip()
                mm = re.match(r'^([A-Za-z]+)<(.*)>$', item)
                if mm:
                    tr, ty = mm.group(1), mm.group(2).replace(' ', '')
                    if tr not in KIND_OF_TRAIT:
                        raise Unsupported('unknown metric trait %s in MetricClient' % tr)
                    meth, code, mty = KIND_OF_TRAIT[tr]
                    eps.append((tr, ty, meth, code, mty))
                elif item == 'CountedExt':
                    eps.append(('CountedExt', 'incr', 'incr', 'c', 'Counter'))
                    eps.append(('CountedExt', 'decr', 'decr', 'c', 'Counter'))
                elif item:
                    raise Unsupported('unexpected supertrait %r' % item)
            return eps
    raise Unsupported('client.rs not found')


# --------------------------------------------------------------------------------------
# environment: sink, error handler
# --------------------------------------------------------------------------------------

def env_sink_emit(ex, args, callee):
    s = as_str(ex, args[1])
    allow = ex.out.get('sink_mode', 'sym')
    n = ex.fresh('emit_ret', 64)
    if allow == 'ok':
        failed = False
    elif allow == 'err':
        failed = True
    else:
        f = ex.fresh('emit_fail', 'bool')
        failed = ex.choose([z3.Not(f), f], free=True) == 1
    if failed:
        e = io_error(ex, 'sink-emit-%d' % len(ex.events))
        ex.events.append(('emit', s, 'err', e))
        return err(e)
    ex.events.append(('emit', s, 'ok', n))
    return ok(Int(n, 'usize'))


def env_sink_flush(ex, args, callee):
    f = ex.fresh('flush_fail', 'bool')
    if ex.choose([z3.Not(f), f], free=True) == 1:
        e = io_error(ex, 'sink-flush')
        ex.events.append(('sink_flush', 'err', e))
        return err(e)
    ex.events.append(('sink_flush', 'ok', None))
    return ok(UNIT)


def env_handler_call(ex, args, callee):
    tup = args[1]
    e = tup.fields[0] if isinstance(tup, Agg) else tup
    ex.events.append(('handler', e))
    return UNIT


@stub('<Box as Fn>::call', '<Box as FnMut>::call_mut', '<Box as FnOnce>::call_once')
def box_fn_call(ex, args, callee):
    b = ex.deref_all(args[0])
    target = b.cell.v if isinstance(b, BoxV) else b
    if isinstance(target, Native):
        h = ex.natives.get(target.rty, {}).get('Fn::call')
        if h is None:
            raise Unsupported('call of native %s' % target.rty)
        ex.stats.env_calls.add('Fn::call on ' + target.rty)
        return h(ex, [target, args[1]], callee)
    if isinstance(target, Closure):
        from .executor import call_closure
        return call_closure(ex, target, [Ref(b.cell, (), False) if isinstance(b, BoxV) else target, args[1]])
    if isinstance(target, FnItem):
        from .executor import dispatch
        tup = args[1]
        return dispatch(ex, None, target.name.split(' {')[-1].rstrip('}') if '{' in target.name else target.name,
                        list(tup.fields) if isinstance(tup, Agg) else [])
    raise Unsupported('call through Box of %r' % (target,))


def install(ex: Explorer):
    stubs.install(ex)
    env_io.install(ex)
    ex.natives['EnvSink'] = {'MetricSink::emit': env_sink_emit, 'MetricSink::flush': env_sink_flush,
                             'emit': env_sink_emit, 'flush': env_sink_flush}
    ex.natives['EnvHandler'] = {'Fn::call': env_handler_call}
    ex.trim_map = {}


# --------------------------------------------------------------------------------------
# symbolic inputs
# --------------------------------------------------------------------------------------

def atom(name, rty='str'):
    ln = z3.BitVec('len_' + name, 64)
    return Str((Atom(name, ln),), rty)


LEN_MAX = (1 << 47) - 1


def len_assumptions(names, cfg=None):
    # every string is a Rust slice: len <= isize::MAX; the sum of all inputs of one call stays far below usize::MAX
    a = [z3.ULE(z3.BitVec('len_' + n, 64), LEN_MAX) for n in names]
    if cfg is not None and not cfg.prefix_empty and cfg.prefix_dots == 0:
        a.append(z3.UGE(z3.BitVec('len_P', 64), 1))     # the empty prefix is its own structure
    return a


def len_bounds(names):
    return {'len_' + n: LEN_MAX for n in names}


class Config:
    """One concrete *structure* of a call; all strings/numbers inside it are symbolic."""

    def __init__(self, prefix_dots=0, prefix_empty=False, dtags=(), default_cid=False, tags=(), rate=False, call_cid=False,
                 ts=False, form='plain', sink='sym', handler=True, nvals=None):
        self.prefix_dots, self.prefix_empty = prefix_dots, prefix_empty
        self.dtags, self.default_cid = tuple(dtags), default_cid     # dtags/tags: tuple of 'kv' | 'bare'
        self.tags, self.rate, self.call_cid, self.ts = tuple(tags), rate, call_cid, ts
        self.form, self.sink, self.handler, self.nvals = form, sink, handler, nvals

    def key(self):
        return (self.prefix_dots, self.prefix_empty, self.dtags, self.default_cid, self.tags, self.rate, self.call_cid, self.ts,
                self.form, self.sink, self.handler, self.nvals)

    def describe(self):
        return {'prefix': 'empty' if self.prefix_empty else 'P' + '.' * self.prefix_dots, 'default_tags': list(self.dtags),
                'default_container_id': self.default_cid, 'call_tags': list(self.tags), 'rate': self.rate,
                'call_container_id': self.call_cid, 'timestamp': self.ts, 'form': self.form, 'sink': self.sink,
                'packed_values': self.nvals}


def value_for(ex, vty, nvals):
    """Symbolic argument of value type `vty` ('i64', 'Vec<Duration>', ...). Returns (value, spec) where spec
    describes what must be rendered: ('ints', rust type on the wire, [terms]) | ('floats', [bits]) | ('dur', unit, [(secs, nanos)])"""
    def dur(i):
        secs, nanos = z3.BitVec('secs%d' % i, 64), z3.BitVec('nanos%d' % i, 32)
        return Native('Duration', (secs, nanos)), (secs, nanos)
    if vty in ('i64', 'i32', 'u64', 'u32'):
        bits = INT_TYPES[vty][0]
        t = z3.BitVec('val0', bits)
        return Int(t, vty), ('int', vty, [t])
    if vty == 'f64':
        t = z3.BitVec('fval0', 64)
        return Float(t), ('float', 'f64', [t])
    if vty == 'Duration':
        v, st = dur(0)
        return v, ('dur', None, [st])
    if vty == 'Vec<u64>':
        ts = [z3.BitVec('val%d' % i, 64) for i in range(nvals)]
        return Vec(tuple(Int(t, 'u64') for t in ts), 'u64'), ('int', 'u64', ts)
    if vty == 'Vec<f64>':
        ts = [z3.BitVec('fval%d' % i, 64) for i in range(nvals)]
        return Vec(tuple(Float(t) for t in ts), 'f64'), ('float', 'f64', ts)
    if vty == 'Vec<Duration>':
        ds = [dur(i) for i in range(nvals)]
        return Vec(tuple(d[0] for d in ds), 'Duration'), ('dur', None, [d[1] for d in ds])
    raise Unsupported('value type ' + vty)


# ----- Duration stubs (validated by Kani on the real code over the full range) ----------------------------

def _dur(ex, v):
    v = ex.deref_all(v)
    if not (isinstance(v, Native) and v.rty == 'Duration'):
        raise Unsupported('not a Duration: %r' % (v,))
    return v.state


@stub('Duration::as_millis')
def duration_as_millis(ex, args, callee):
    secs, nanos = _dur(ex, args[0])
    ex.assume(z3.ULT(nanos, 1000000000))
    t = z3.ZeroExt(64, secs) * z3.BitVecVal(1000, 128) + z3.ZeroExt(96, z3.UDiv(nanos, z3.BitVecVal(1000000, 32)))
    return Int(t, 'u128')


@stub('Duration::as_nanos')
def duration_as_nanos(ex, args, callee):
    secs, nanos = _dur(ex, args[0])
    ex.assume(z3.ULT(nanos, 1000000000))
    t = z3.ZeroExt(64, secs) * z3.BitVecVal(1000000000, 128) + z3.ZeroExt(96, nanos)
    return Int(t, 'u128')


@stub('Duration::as_micros')
def duration_as_micros(ex, args, callee):
    secs, nanos = _dur(ex, args[0])
    ex.assume(z3.ULT(nanos, 1000000000))
    t = z3.ZeroExt(64, secs) * z3.BitVecVal(1000000, 128) + z3.ZeroExt(96, z3.UDiv(nanos, z3.BitVecVal(1000, 32)))
    return Int(t, 'u128')


@stub('Duration::as_secs')
def duration_as_secs(ex, args, callee):
    secs, nanos = _dur(ex, args[0])
    return Int(secs, 'u64')


@stub('Duration::subsec_millis')
def duration_subsec_millis(ex, args, callee):
    secs, nanos = _dur(ex, args[0])
    ex.assume(z3.ULT(nanos, 1000000000))
    return Int(z3.UDiv(nanos, z3.BitVecVal(1000000, 32)), 'u32')


@stub('Duration::subsec_nanos')
def duration_subsec_nanos(ex, args, callee):
    secs, nanos = _dur(ex, args[0])
    ex.assume(z3.ULT(nanos, 1000000000))
    return Int(nanos, 'u32')


@stub('<str as ToString>::to_string', '<&str as ToString>::to_string')
def str_to_string(ex, args, callee):
    return as_str(ex, args[0]).as_type('String')


@stub('<* as ToString>::to_string')
def any_to_string(ex, args, callee):
    v = ex.deref_all(args[0])
    if isinstance(v, Str):
        return v.as_type('String')
    raise Unsupported('to_string of %r' % (v,))


# --------------------------------------------------------------------------------------
# reference renderer (written from the text of C01/C02/C04)
# --------------------------------------------------------------------------------------

def ref_line(cfg: Config, code: str, spec, timer: bool, hist: bool):
    """Piece-list key of the line the property demands, or ('invalid',) when the value must be rejected.
    Returns (key, validity_condition) where validity_condition is a z3 Bool over the value variables."""
    pieces = []
    # name
    if not cfg.prefix_empty:
        pieces += [('str', 'P'), b'.']
    pieces.append(('str', 'key'))
    pieces.append(b':')
    kind, wty, vals = spec
    valid = z3.BoolVal(True)
    rendered = []
    if kind == 'int':
        wire_ty = {'i32': 'i64', 'u32': 'u64'}.get(wty, wty)
        for t in vals:
            if wty == 'i32':
                t = z3.SignExt(32, t)
            elif wty == 'u32':
                t = z3.ZeroExt(32, t)
            rendered.append(('dec', wire_ty, z3.simplify(t).sexpr(), ()))
    elif kind == 'float':
        for t in vals:
            rendered.append(('dec', 'f64', z3.simplify(t).sexpr(), ()))
    else:
        for secs, nanos in vals:
            if timer:
                count = z3.ZeroExt(64, secs) * z3.BitVecVal(1000, 128) + z3.ZeroExt(96, z3.UDiv(nanos, z3.BitVecVal(1000000, 32)))
            else:
                count = z3.ZeroExt(64, secs) * z3.BitVecVal(1000000000, 128) + z3.ZeroExt(96, nanos)
            valid = z3.And(valid, z3.ULE(count, z3.BitVecVal((1 << 64) - 1, 128)))
            rendered.append(('dec', 'u64', z3.simplify(z3.Extract(63, 0, count)).sexpr(), ()))
    for i, r in enumerate(rendered):
        if i:
            pieces.append(b':')
        pieces.append(r)
    pieces += [b'|', code.encode()]
    if cfg.rate:
        pieces += [b'|@', ('dec', 'f64', 'rate', ())]
    alltags = [('d%d' % i, k) for i, k in enumerate(cfg.dtags)] + [('t%d' % i, k) for i, k in enumerate(cfg.tags)]
    if alltags:
        pieces.append(b'|#')
        for i, (nm, k) in enumerate(alltags):
            if i:
                pieces.append(b',')
            if k == 'kv':
                pieces += [('str', nm + 'k'), b':']
            pieces.append(('str', nm + 'v'))
    if cfg.call_cid:
        pieces += [b'|c:', ('str', 'ccid')]
    elif cfg.default_cid:
        pieces += [b'|c:', ('str', 'dcid')]
    if cfg.ts:
        pieces += [b'|T', ('dec', 'u64', 'ts', ())]
    if len(rendered) == 0:
        valid = z3.BoolVal(False)     # "there is at least one value"
    # normalise: merge adjacent literals
    out = []
    for p in pieces:
        if isinstance(p, bytes) and out and isinstance(out[-1], bytes):
            out[-1] += p
        else:
            out.append(p)
    return tuple(out), valid


def line_key(s: Str):
    """Key of an emitted string with the rate/timestamp atoms recognised by their payload terms."""
    out = []
    for p in s.norm():
        if isinstance(p, bytes):
            out.append(p)
        elif p.kind == 'dec':
            ty, term = p.payload[0], z3.simplify(p.payload[1])
            sx = term.sexpr()
            if sx == 'rate_bits':
                sx = 'rate'
            elif sx == 'ts_val':
                sx = 'ts'
            out.append(('dec', ty, sx, ()))
        else:
            out.append(('str', p.name))
    return tuple(out)


# --------------------------------------------------------------------------------------
# one call, executed on the MIR
# --------------------------------------------------------------------------------------

def build_client(ex, prog, cfg: Config):
    """Execute StatsdClient::builder(..).with_*(..).build() on the MIR."""
    if cfg.prefix_empty:
        prefix = Str((), 'str')
    else:
        p = atom('P').pieces[0]
        ex.trim_map[('P', b'.')] = (p,)        # P is the prefix with its trailing dots removed
        prefix = Str((p,) + ((b'.' * cfg.prefix_dots,) if cfg.prefix_dots else ()), 'str')
    sink = Native('EnvSink', None, fresh_id())
    b = ex.call(prog.find_impl_method('builder', 'StatsdClient'), [prefix, sink])
    if cfg.handler:
        b = ex.call(prog.find_impl_method('with_error_handler', 'StatsdClientBuilder'), [b, Native('EnvHandler', None, fresh_id())])
    for i, k in enumerate(cfg.dtags):
        if k == 'kv':
            b = ex.call(prog.find_impl_method('with_tag', 'StatsdClientBuilder'), [b, atom('d%dk' % i), atom('d%dv' % i)])
        else:
            b = ex.call(prog.find_impl_method('with_tag_value', 'StatsdClientBuilder'), [b, atom('d%dv' % i)])
    if cfg.default_cid:
        b = ex.call(prog.find_impl_method('with_container_id', 'StatsdClientBuilder'), [b, atom('dcid')])
    return ex.call(prog.find_impl_method('build', 'StatsdClientBuilder'), [b])


def input_names(cfg: Config):
    names = ['key']
    if not cfg.prefix_empty:
        names.append('P')
    for i, k in enumerate(cfg.dtags):
        names += ['d%dv' % i] + (['d%dk' % i] if k == 'kv' else [])
    for i, k in enumerate(cfg.tags):
        names += ['t%dv' % i] + (['t%dk' % i] if k == 'kv' else [])
    if cfg.default_cid:
        names.append('dcid')
    if cfg.call_cid:
        names.append('ccid')
    return names


def do_calls(ex, prog, ep, cfg: Config, k: int):
    """The same call k times on one client (independent sink outcomes); returns the list of per-call results,
    each with the slice of the event log it produced."""
    out = []
    ccell = None
    for i in range(k):
        e0 = len(ex.events)
        status, payload = 'ok', None
        try:
            r = do_call(ex, prog, ep, cfg, ccell)
            ccell = r[2]
        except Unwinding as u:
            status, r = 'panic', u.payload
        out.append((status, r, e0, len(ex.events)))
        if status != 'ok':
            break
    return out


def do_call(ex, prog, ep, cfg: Config, ccell=None):
    """Run one metric call; returns (result value | None for quiet, spec, client cell)."""
    tr, vty, meth, code, mty = ep
    ex.out['generic_T'] = mty
    if ccell is None:
        client = build_client(ex, prog, cfg)
        ccell = Cell(client, 'client')
    client = ccell.v
    cref = Ref(ccell, (), False)
    key = atom('key')
    snapshot = client
    if tr == 'CountedExt':
        val, spec = None, ('int', 'i64', [z3.BitVecVal(1 if meth == 'incr' else -1, 64)])
        targ = None
    else:
        val, spec = value_for(ex, vty, cfg.nvals if cfg.nvals is not None else 2)
    decorated = cfg.tags or cfg.rate or cfg.call_cid or cfg.ts
    if cfg.form == 'plain':
        if decorated:
            raise Unsupported('plain call form cannot carry per-call decoration')
        if tr == 'CountedExt':
            res = ex.call(prog.traits_default[('CountedExt', meth)], [cref, key])
        else:
            name = prog.traits_default[(tr, meth)]
            res = ex.call(name, [cref, key, val])
        return res, spec, ccell, snapshot
    # tagged / quiet: <kind>_with_tags(key, val) -> builder methods -> try_send / send
    if tr == 'CountedExt':
        mb = ex.call(prog.traits_default[('CountedExt', meth + '_with_tags')], [cref, key])
    else:
        name = prog.find_impl_method(meth + '_with_tags', 'StatsdClient', tr)
        if name is None:
            raise Unsupported('no %s::%s_with_tags for StatsdClient' % (tr, meth))
        mb = ex.call(name, [cref, key, val])
    MB = 'MetricBuilder<\'m,\'c,T>'

    def mbm(m):
        n = prog.find_impl_method(m, 'MetricBuilder')
        if n is None:
            raise Unsupported('MetricBuilder::%s not found' % m)
        return n
    for i, k in enumerate(cfg.tags):
        if k == 'kv':
            mb = ex.call(mbm('with_tag'), [mb, atom('t%dk' % i), atom('t%dv' % i)])
        else:
            mb = ex.call(mbm('with_tag_value'), [mb, atom('t%dv' % i)])
    if cfg.call_cid:
        mb = ex.call(mbm('with_container_id'), [mb, atom('ccid')])
    if cfg.ts:
        mb = ex.call(mbm('with_timestamp'), [mb, Int(z3.BitVec('ts_val', 64), 'u64')])
    if cfg.rate:
        mb = ex.call(mbm('with_sampling_rate'), [mb, Float(z3.BitVec('rate_bits', 64))])
    if cfg.form == 'tagged':
        return ex.call(mbm('try_send'), [mb]), spec, ccell, snapshot
    if cfg.form == 'quiet':
        ex.call(mbm('send'), [mb])
        return None, spec, ccell, snapshot
    raise Unsupported('call form ' + cfg.form)


# --------------------------------------------------------------------------------------
# path-level oracle: C01 (line), C02 (values reach the wire), C03 (one emit, truthful results), C04 (decoration)
# --------------------------------------------------------------------------------------

def ref_pieces(cfg: Config, code: str, spec, timer: bool):
    """The line the properties demand, as pieces: bytes | ('str', atom name) | ('dec', rust type, z3 term).
    Also returns the validity condition of the value (z3 Bool)."""
    pieces = []
    if not cfg.prefix_empty:
        pieces += [('str', 'P'), b'.']
    pieces += [('str', 'key'), b':']
    kind, wty, vals = spec
    valid = z3.BoolVal(True)
    rendered = []
    if kind == 'int':
        for t in vals:
            if wty == 'i32':
                rendered.append(('dec', 'i64', z3.SignExt(32, t)))
            elif wty == 'u32':
                rendered.append(('dec', 'u64', z3.ZeroExt(32, t)))
            else:
                rendered.append(('dec', wty, t))
    elif kind == 'float':
        for t in vals:
            rendered.append(('dec', 'f64', t))
    else:
        for secs, nanos in vals:
            if timer:
                count = z3.ZeroExt(64, secs) * z3.BitVecVal(1000, 128) + z3.ZeroExt(96, z3.UDiv(nanos, z3.BitVecVal(1000000, 32)))
            else:
                count = z3.ZeroExt(64, secs) * z3.BitVecVal(1000000000, 128) + z3.ZeroExt(96, nanos)
            valid = z3.And(valid, z3.ULE(count, z3.BitVecVal((1 << 64) - 1, 128)))
            rendered.append(('dec', 'u64', z3.Extract(63, 0, count)))
    if not rendered:
        valid = z3.BoolVal(False)          # "there is at least one value"
    for i, r in enumerate(rendered):
        if i:
            pieces.append(b':')
        pieces.append(r)
    pieces += [b'|', code.encode()]
    if cfg.rate:
        pieces += [b'|@', ('dec', 'f64', z3.BitVec('rate_bits', 64))]
    alltags = [('d%d' % i, k) for i, k in enumerate(cfg.dtags)] + [('t%d' % i, k) for i, k in enumerate(cfg.tags)]
    if alltags:
        pieces.append(b'|#')
        for i, (nm, k) in enumerate(alltags):
            if i:
                pieces.append(b',')
            if k == 'kv':
                pieces += [('str', nm + 'k'), b':']
            pieces.append(('str', nm + 'v'))
    if cfg.call_cid:
        pieces += [b'|c:', ('str', 'ccid')]
    elif cfg.default_cid:
        pieces += [b'|c:', ('str', 'dcid')]
    if cfg.ts:
        pieces += [b'|T', ('dec', 'u64', z3.BitVec('ts_val', 64))]
    out = []
    for p in pieces:
        if isinstance(p, bytes) and out and isinstance(out[-1], bytes):
            out[-1] = out[-1] + p
        else:
            out.append(p)
    return out, valid


def line_matches(s: Str, ref):
    """Structural comparison of an emitted string with the reference pieces.
    Returns (False, why) or (True, z3 condition that all numeric atoms carry the demanded values)."""
    got = list(s.norm())
    if len(got) != len(ref):
        return False, 'shape differs: emitted %r, demanded %s' % (s, show_ref(ref))
    conds = []
    for g, r in zip(got, ref):
        if isinstance(r, bytes):
            if not (isinstance(g, bytes) and g == r):
                return False, 'emitted %r, demanded %s' % (s, show_ref(ref))
        elif r[0] == 'str':
            if not (isinstance(g, Atom) and g.kind == 'str' and g.name == r[1]):
                return False, 'emitted %r, demanded %s' % (s, show_ref(ref))
        else:
            if not (isinstance(g, Atom) and g.kind == 'dec' and g.payload[0] == r[1]):
                return False, 'number rendered as a different type: emitted %r, demanded %s' % (s, show_ref(ref))
            if len(g.payload) > 2 and g.payload[2]:
                return False, 'number rendered with a non-default format: %r' % (s,)
            conds.append(g.payload[1] == r[2])
    return True, z3.And(*conds) if conds else z3.BoolVal(True)


def show_ref(ref):
    out = []
    for r in ref:
        if isinstance(r, bytes):
            out.append(repr(r.decode()))
        elif r[0] == 'str':
            out.append('<%s>' % r[1])
        else:
            out.append('<%s %s>' % (r[1], z3.simplify(r[2])))
    return ' '.join(out)


def find_tokens(v, out=None):
    """All io::Error tokens reachable inside a value."""
    out = [] if out is None else out
    if isinstance(v, Native) and v.rty == 'IoError':
        out.append(v)
    elif isinstance(v, Agg):
        for f in v.fields:
            find_tokens(f, out)
    elif isinstance(v, BoxV):
        find_tokens(v.cell.v, out)
    return out


def error_kind(ex, prog, e):
    """MetricError::kind() executed on the MIR."""
    c = Cell(e, 'err')
    k = ex.call(prog.find_impl_method('kind', 'MetricError'), [Ref(c, (), False)])
    if isinstance(k, Agg) and k.kind == 'enum':
        return k.variant
    raise Unsupported('MetricError::kind returned %r' % (k,))


class CallChecker:
    def __init__(self, ex, prog, ep, cfg, findings, counters, events=None, call_index=0, repeat=1):
        self.ex, self.prog, self.ep, self.cfg, self.findings, self.counters = ex, prog, ep, cfg, findings, counters
        self.events = events
        self.call_index, self.repeat = call_index, repeat

    def fail(self, prop, clause, detail, neg=None):
        ex = self.ex
        self.findings.append({'prop': prop, 'clause': clause, 'detail': detail, 'neg': neg if neg is not None else z3.BoolVal(True),
                              'pc': list(ex.assumptions) + list(ex.pc), 'ep': self.ep, 'cfg': self.cfg,
                              'events': [e[:3] for e in ex.events], 'full_events': list(ex.events),
                              'call_index': self.call_index, 'repeat': self.repeat,
                              'streq': dict(getattr(ex, 'streq_vars', {}))})

    def oblige(self, prop, clause, cond, detail):
        """Deferred: all obligations of a path are discharged by one query (individually only if that is sat)."""
        self.counters['obligations'] += 1
        c = z3.simplify(cond) if not isinstance(cond, bool) else z3.BoolVal(cond)
        if z3.is_true(c):
            return True
        self.pending.append((prop, clause, c, detail))
        return True

    def discharge(self):
        ex = self.ex
        if not self.pending:
            return
        conj = z3.And(*[c for _, _, c, _ in self.pending]) if len(self.pending) > 1 else self.pending[0][2]
        r = ex.check(z3.Not(conj), important=True)
        if r == 'unknown':
            raise Unsupported('solver unknown on the obligations of a call path')
        if r == 'sat':
            for prop, clause, c, detail in self.pending:
                r1 = ex.check(z3.Not(c), important=True)
                if r1 == 'unknown':
                    raise Unsupported('solver unknown on %s/%s' % (prop, clause))
                if r1 == 'sat':
                    self.fail(prop, clause, detail, z3.Not(c))
                    if prop == 'C02' and clause == 'value-on-wire':
                        self.fail('C01', 'line', detail, z3.Not(c))
        self.pending = []

    def run(self, result, status):
        self.pending = []
        try:
            self._run(result, status)
        finally:
            self.discharge()

    def _run(self, result, status):
        ex, prog, cfg = self.ex, self.prog, self.cfg
        tr, vty, meth, code, mty = self.ep
        if status == 'panic':
            for p_ in ('C20', 'C03'):
                self.fail(p_, 'no-panic', 'the call panicked: %r' % (result,))
            return
        if status != 'ok':
            return
        res, spec, ccell, snapshot = result
        ref, valid = ref_pieces(cfg, code, spec, timer=(tr == 'Timed'))
        evs = self.events if self.events is not None else ex.events
        emits = [e for e in evs if e[0] == 'emit']
        handlers = [e for e in evs if e[0] == 'handler']
        writes = [e for e in evs if e[0] == 'atomic' and e[1] not in ('load', 'cas-fail')]
        if writes:
            ex.out['stateful_client'] = True
        quiet = cfg.form == 'quiet'
        # frame condition: a call does not modify the client
        self.oblige('C03', 'client-unchanged', ccell.v is snapshot or ccell.v == snapshot, 'the call modified the client')
        if len(emits) > 1:
            self.fail('C03', 'at-most-one-emit', 'one call handed the sink %d strings' % len(emits))
            self.fail('C01', 'single-emit', 'one call handed the sink %d strings' % len(emits))
            return
        if len(emits) == 1:
            _, line, outcome, tok = emits[0][:4]
            self.oblige('C03', 'rejected-not-sent', valid, 'a value that must be rejected was sent')
            self.oblige('C02', 'rejected-not-sent', valid, 'a value that must be rejected was sent')
            # C01: a value outside the wire type's range cannot be rendered so that the line parses back to it
            self.oblige('C01', 'rejected-not-sent', valid, 'a value that must be rejected was sent (the line cannot parse back to the supplied value)')
            okm, cond = line_matches(line, ref)
            if not okm:
                prop = 'C04' if _decoration_differs(line, ref) else 'C01'
                self.fail(prop, 'line', cond)
                if prop == 'C04':
                    self.fail('C01', 'line', cond)
                if 'number' in cond:
                    self.fail('C02', 'value-on-wire', cond)
            else:
                self.oblige('C02', 'value-on-wire', cond, 'a numeric value on the wire differs from the value supplied: emitted %r, demanded %s' % (line, show_ref(ref)))
            if outcome == 'ok':
                if quiet:
                    self.oblige('C03', 'handler-silent-on-success', len(handlers) == 0, 'error handler invoked although the sink accepted the metric')
                else:
                    if not is_variant(res, 'Ok'):
                        self.fail('C03', 'ok-result', 'sink accepted the metric but the call returned %r' % (res,))
                    else:
                        m = res.fields[0]
                        ms = m.fields[0] if isinstance(m, Agg) and m.fields else None
                        self.oblige('C03', 'ok-carries-sent-text', isinstance(ms, Str) and ms.key() == line.key(),
                                    'Ok(metric) does not carry the text handed to the sink: %r vs %r' % (ms, line))
                    self.oblige('C03', 'handler-not-used', len(handlers) == 0, 'error handler invoked by a non-quiet call')
            else:
                if quiet:
                    if len(handlers) != 1:
                        self.fail('C03', 'handler-once', 'sink refused the metric: handler invoked %d times' % len(handlers))
                    else:
                        e = handlers[0][1]
                        self.oblige('C03', 'handler-gets-io-error', error_kind(ex, prog, e) == 'IoError' and any(t.ident == tok.ident for t in find_tokens(e)),
                                    "handler did not receive an I/O-kind error carrying the sink's error")
                else:
                    if not is_variant(res, 'Err'):
                        self.fail('C03', 'err-result', 'sink refused the metric but the call returned %r' % (res,))
                    else:
                        e = res.fields[0]
                        self.oblige('C03', 'io-error-carries-source', error_kind(ex, prog, e) == 'IoError' and any(t.ident == tok.ident for t in find_tokens(e)),
                                    "result is not an I/O-kind error carrying the sink's own error")
                    self.oblige('C03', 'handler-not-used', len(handlers) == 0, 'error handler invoked by a non-quiet call')
        else:
            # nothing sent: only legitimate for a rejected value
            self.oblige('C03', 'valid-is-sent', z3.Not(valid), 'a valid value was not handed to the sink')
            self.oblige('C01', 'valid-is-sent', z3.Not(valid), 'a valid value was not handed to the sink')
            if quiet:
                if len(handlers) != 1:
                    self.fail('C03', 'handler-once', 'value rejected: handler invoked %d times' % len(handlers))
                else:
                    self.oblige('C03', 'invalid-input-kind', error_kind(ex, prog, handlers[0][1]) == 'InvalidInput', 'handler did not receive an invalid-input error')
            else:
                if not is_variant(res, 'Err'):
                    self.fail('C03', 'err-result', 'nothing was sent but the call returned %r' % (res,))
                else:
                    self.oblige('C03', 'invalid-input-kind', error_kind(ex, prog, res.fields[0]) == 'InvalidInput', 'rejected value not reported as invalid input')
                    self.oblige('C02', 'invalid-input-kind', error_kind(ex, prog, res.fields[0]) == 'InvalidInput', 'rejected value not reported as invalid input')
                self.oblige('C03', 'handler-not-used', len(handlers) == 0, 'error handler invoked by a non-quiet call')


def _decoration_differs(line: Str, ref):
    """True when emitted and demanded lines agree up to the type code but differ afterwards (tags / container id)."""
    got = list(line.norm())
    def split(pieces):
        for i, p in enumerate(pieces):
            if isinstance(p, bytes) and b'|' in p:
                return i
        return len(pieces)
    gi, ri = split(got), split(ref)
    def keyof(p):
        if isinstance(p, bytes):
            return p
        if isinstance(p, Atom):
            return ('str', p.name) if p.kind == 'str' else ('dec', p.payload[0])
        return ('str', p[1]) if p[0] == 'str' else ('dec', p[1])
    head_same = [keyof(p) for p in got[:gi]] == [keyof(p) for p in ref[:ri]]
    if not head_same:
        return False
    gt = b''.join(p for p in got[gi:] if isinstance(p, bytes))
    rt = b''.join(p for p in ref[ri:] if isinstance(p, bytes))
    # only the tag / container sections are C04's subject
    return (b'|#' in gt or b'|#' in rt or b'|c:' in gt or b'|c:' in rt)
