"""Symbolic executor for MIR with stateless (re-execution) path exploration.

One `Explorer.run(entry)` enumerates every feasible path of `entry(ex)`; `entry`
builds its symbolic inputs, calls `ex.call(...)` on MIR functions and records what
it wants in `ex.out`. Branch feasibility and all property queries go to z3.
"""
import functools
import itertools
import os
import re
import time
from typing import Any, Callable, Dict, List, Optional, Tuple

import z3

from .mirparse import Func, Place, Operand, Rvalue, Stmt, Term, Unsupported, split_top, match_close
from .program import Program, strip_generics, last_seg, type_key
from .values import *
from .smt import Smt, ModelView, SolverDisagreement


class PathInfeasible(Exception):
    pass


class PathCut(Exception):
    """The path left the stated bounds (e.g. loop bound); recorded, not a failure."""


class Unwinding(Exception):
    """A panic is propagating. `payload` describes the origin."""

    def __init__(self, payload):
        super().__init__(payload)
        self.payload = payload


class Abort(Exception):
    pass


class SplitPoint(Exception):
    """Raised at the exploration frontier when only decision-tree prefixes are being enumerated."""


# absolute time after which explorations give up (set by a driver before forking workers; None = no budget)
DEADLINE = None


class Stats:
    def __init__(self):
        self.queries = 0
        self.sat = 0
        self.unsat = 0
        self.unknown = 0
        self.solver_time = 0.0
        self.paths = 0
        self.cut_paths = 0
        self.functions = set()
        self.stubs = set()
        self.env_calls = set()
        self.steps = 0

    def merge(self, o):
        self.queries += o.queries
        self.sat += o.sat
        self.unsat += o.unsat
        self.unknown += o.unknown
        self.solver_time += o.solver_time
        self.paths += o.paths
        self.cut_paths += o.cut_paths
        self.functions |= o.functions
        self.stubs |= o.stubs
        self.env_calls |= o.env_calls
        self.steps += o.steps


class Obligation:
    """A panic (or other) obligation discovered on a path."""

    def __init__(self, kind, where, msg, violated, model=None, pc=None):
        self.kind = kind
        self.where = where
        self.msg = msg
        self.violated = violated
        self.model = model
        self.pc = pc


class Explorer:
    def __init__(self, prog: Program, timeout_ms=60000, max_paths=200000, loop_bound=64, seed=0):
        self.prog = prog
        self.stats = Stats()
        self.timeout_ms = timeout_ms
        self.max_paths = max_paths
        self.loop_bound = loop_bound
        self.seed = seed
        self.stubs: Dict[str, Callable] = {}
        self.stub_patterns: List[Tuple[Any, Callable]] = []
        self.natives: Dict[str, Dict[str, Callable]] = {}    # native rty -> { 'Trait::method' | 'method': fn }
        self.check_panics = True      # turn assert terminators into obligations
        self.assumptions: List[Any] = []
        # per-path state
        self.smt = Smt(quick_ms=int(os.environ.get('VERIF_Z3_QUICK_MS', '100')), timeout_ms=timeout_ms, seed=seed,
                       cross_check=os.environ.get('VERIF_CROSS_CHECK') == '1')
        self.solver = self.smt      # .add() keeps the incremental z3 in sync
        self.pc: List[Any] = []
        self.trail: List[List[int]] = []    # [chosen_index_in_alts, alts]
        self.pos = 0
        self.out: Dict[str, Any] = {}
        self.events: List[Any] = []
        self.obligations: List[Obligation] = []
        self.depth = 0
        self.sym_counter = 0
        self.visit_count: Dict[Tuple[int, str, str], int] = {}
        self.split_depth: Optional[int] = None
        self.var_bounds: Dict[str, int] = {}

    # ------------------------------------------------------------------ solver
    def check(self, *extra, important=False) -> str:
        t0 = time.time()
        if DEADLINE is not None and t0 > DEADLINE:
            raise Unsupported('time budget of this exploration phase exhausted')
        r = self.smt.check(extra, important=important)
        dt = time.time() - t0
        self.stats.queries += 1
        self.stats.solver_time += dt
        if r == 'sat':
            self.stats.sat += 1
        elif r == 'unsat':
            self.stats.unsat += 1
        else:
            self.stats.unknown += 1
        return r

    def model(self, *extra):
        return self.smt.model(extra)

    def assume(self, cond):
        if isinstance(cond, Bool):
            cond = cond.t
        cond = z3.simplify(cond)
        if z3.is_true(cond):
            return
        if z3.is_false(cond):
            raise PathInfeasible()
        self.pc.append(cond)
        self.solver.add(cond)

    def fresh(self, name: str, sort) -> Any:
        """Fresh symbolic constant whose name is stable across re-executions of a path prefix."""
        self.sym_counter += 1
        nm = '%s!%d' % (name, self.sym_counter)
        if sort == 'bool':
            return z3.Bool(nm)
        if isinstance(sort, int):
            return z3.BitVec(nm, sort)
        return z3.Const(nm, sort)

    # ------------------------------------------------------------------ choices
    def choose(self, conds: List[Any], labels: Optional[List[str]] = None, free: bool = False) -> int:
        """Fork over mutually exclusive alternatives `conds` (z3 Bool terms)."""
        simp = [z3.simplify(c) for c in conds]
        live = [i for i, c in enumerate(simp) if not z3.is_false(c)]
        if len(live) == 1 and z3.is_true(simp[live[0]]):
            return live[0]
        if self.pos < len(self.trail):
            idx, alts = self.trail[self.pos]
            self.pos += 1
            i = alts[idx]
            self.pc.append(simp[i])
            self.solver.add(simp[i])
            if getattr(self, 'oracle', False) and not free:
                self.ops.append({'kind': 'branch', 'out': i, 'cond': simp[i]})
            return i
        if self.split_depth is not None and len(self.trail) >= self.split_depth:
            raise SplitPoint()
        feas = []
        from .smt import _has_fp
        lazy = free or any(_has_fp(simp[i]) for i in live)
        for i in live:
            if z3.is_true(simp[i]) or lazy:
                # free environment choices are always feasible; floating-point branch conditions are not checked
                # for feasibility here (bit-blasted fract/round queries take minutes): both sides are explored,
                # which can only add paths, and anything found on such a path must still reproduce natively
                feas.append(i)
                continue
            r = self.check(simp[i])
            if r == 'sat':
                feas.append(i)
            elif r == 'unknown':
                # undecided feasibility: explore the branch anyway (over-approximation - it can only add paths; every
                # obligation on such a path is still decided under the full path condition, and a finding needs a
                # model of it plus a native replay)
                self.stats.unknown_feasibility = getattr(self.stats, 'unknown_feasibility', 0) + 1
                if self.stats.unknown_feasibility > 40:
                    raise Unsupported('solver returned unknown on more than 40 branch feasibility queries')
                feas.append(i)
        if not feas:
            raise PathInfeasible()
        self.trail.append([0, feas])
        self.pos += 1
        i = feas[0]
        self.pc.append(simp[i])
        self.solver.add(simp[i])
        if getattr(self, 'oracle', False) and not free:
            self.ops.append({'kind': 'branch', 'out': i, 'cond': simp[i]})
        return i

    def choose_bool(self, cond) -> bool:
        if isinstance(cond, Bool):
            cond = cond.t
        return self.choose([cond, z3.Not(cond)]) == 0

    def nondet(self, n: int, name='nd') -> int:
        """Environment nondeterminism over n alternatives (always feasible)."""
        if n == 1:
            return 0
        v = self.fresh(name, 8)
        return self.choose([v == i for i in range(n - 1)] + [z3.UGE(v, n - 1)], free=True)

    # ------------------------------------------------------------------ driver
    def run(self, entry: Callable[['Explorer'], Any], on_path: Callable[['Explorer', Any, str], None],
            prefix: Optional[List[List[Any]]] = None, split_depth: Optional[int] = None,
            on_split: Optional[Callable[[List[List[Any]]], None]] = None):
        """Enumerate all paths. `on_path(ex, result, status)`; status in ok|panic|cut.

        `prefix` (a trail prefix from `enumerate_prefixes`) restricts the run to the subtree below it;
        `split_depth` stops at that decision depth and reports the trail prefixes instead (work splitting)."""
        self.trail = [list(t) for t in prefix] if prefix else []
        frozen = len(self.trail)
        self.split_depth = split_depth
        npaths = 0
        while True:
            self.smt.reset()
            self.pc = []
            self.pos = 0
            self.out = {}
            self.events = []
            self.obligations = []
            self.sym_counter = 0
            self.depth = 0
            self.visit_count = {}
            for a in self.assumptions:
                self.solver.add(a)
            status = 'ok'
            result = None
            try:
                result = entry(self)
            except PathInfeasible:
                status = 'infeasible'
            except PathCut as e:
                status = 'cut'
                result = str(e)
                self.stats.cut_paths += 1
            except Unwinding as u:
                status = 'panic'
                result = u.payload
            except SplitPoint:
                status = 'infeasible'
                if on_split is not None:
                    on_split([[t[0], list(t[1])] for t in self.trail])
            if status != 'infeasible':
                npaths += 1
                self.stats.paths += 1
                on_path(self, result, status)
            if npaths > self.max_paths:
                raise Unsupported('path budget exceeded (%d)' % self.max_paths)
            # backtrack
            while len(self.trail) > frozen and self.trail[-1][0] + 1 >= len(self.trail[-1][1]):
                self.trail.pop()
            if len(self.trail) <= frozen:
                break
            self.trail[-1][0] += 1
        self.split_depth = None

    def enumerate_prefixes(self, entry, depth: int):
        """Trail prefixes of length `depth` (plus complete shorter paths) that partition the path space."""
        out = []
        done = []
        self.run(entry, lambda ex, r, st: done.append([[t[0], list(t[1])] for t in ex.trail]), split_depth=depth,
                 on_split=lambda tr: out.append(tr))
        return out, done

    # ------------------------------------------------------------------ memory helpers
    def na_access(self, kind):
        """A non-atomic access to a tracked cell (the UnsafeCell of C18): at most one event per MIR step and kind."""
        h = getattr(self, 'na_hook', None)
        if h is None:
            return
        key = (self.stats.steps, kind)
        if getattr(self, '_na_last', None) == key:
            return
        self._na_last = key
        h(kind)

    def load(self, ref: Ref):
        if ref.cell.tracked:
            self.na_access('read')
        v = ref.cell.v
        for p in ref.path:
            v = self.project(v, p)
        return v

    def project(self, v, p):
        if isinstance(v, Agg):
            return v.fields[p]
        if isinstance(v, Vec):
            return v.elems[p]
        if isinstance(v, Closure):
            return v.captures[p]
        if isinstance(v, (BoxV,)):
            # Box<T>.0 is Unique<T>, .0 of that is NonNull<T>: both are "the pointer"
            if p == 0:
                return v
            raise Unsupported('projection through Box without deref')
        raise Unsupported('projection %r of %r' % (p, v))

    def store(self, ref: Ref, val):
        if ref.cell.tracked:
            self.na_access('write')
        ref.cell.v = self._store_path(ref.cell.v, ref.path, val)

    def _store_path(self, cur, path, val):
        if not path:
            return val
        p = path[0]
        if isinstance(cur, Agg):
            return cur.with_field(p, self._store_path(cur.fields[p], path[1:], val))
        if isinstance(cur, Vec):
            e = list(cur.elems)
            e[p] = self._store_path(e[p], path[1:], val)
            return Vec(tuple(e), cur.ety)
        if isinstance(cur, Closure):
            c = list(cur.captures)
            c[p] = self._store_path(c[p], path[1:], val)
            return Closure(cur.fn, cur.tyname, tuple(c), cur.capnames)
        if cur is UNINIT or cur is MOVED or cur is None:
            raise Unsupported('field store into uninitialised aggregate')
        raise Unsupported('store path into %r' % (cur,))

    def deref_all(self, v):
        while isinstance(v, Ref):
            v = self.load(v)
        return v

    # ------------------------------------------------------------------ calls into MIR
    def call(self, fname: str, args: List[Any]):
        f = self.prog.funcs.get(fname)
        if f is None:
            raise Unsupported('no MIR body for ' + fname)
        return Frame(self, f).run(args)

    def find_fn(self, suffix: str) -> str:
        """Find the unique MIR function whose name ends with `suffix`."""
        c = [n for n in self.prog.funcs if n.endswith(suffix)]
        if len(c) != 1:
            raise Unsupported('function lookup %r: %d candidates' % (suffix, len(c)))
        return c[0]

    # runtime type of a value, as a type key
    def rtype(self, v) -> str:
        v0 = v
        while isinstance(v, Ref):
            v = self.load(v)
        if isinstance(v, Int):
            return v.ty
        if isinstance(v, Float):
            return 'f64'
        if isinstance(v, Bool):
            return 'bool'
        if isinstance(v, Agg):
            return v.name or 'tuple'
        if isinstance(v, Vec):
            return 'Vec<%s>' % v.ety
        if isinstance(v, Str):
            return {'str': 'str', 'String': 'String', 'bytes': '[u8]', 'Vec<u8>': 'Vec<u8>'}[v.rty]
        if isinstance(v, Native):
            return v.rty
        if isinstance(v, BoxV):
            return self.rtype(v.cell.v)
        if isinstance(v, ArcV):
            return 'Arc<%s>' % self.rtype(v.cell.v.value.v)
        if isinstance(v, Closure):
            return v.tyname
        if isinstance(v, FnItem):
            return 'fn-item'
        if isinstance(v, Unit):
            return '()'
        raise Unsupported('runtime type of %r' % (v0,))

    def prog_has_variant(self, ename, vname) -> bool:
        vs = enum_variants(self.prog, ename)
        return bool(vs) and vname in vs

    # ------------------------------------------------------------------ drop glue
    def drop_value(self, v):
        if v is MOVED or v is UNINIT or v is None:
            return
        if isinstance(v, (Int, Bool, Float, Unit, Str, Ref, FnItem)):
            return
        if isinstance(v, Agg):
            d = self.prog.drop_impls.get(v.name)
            if d is not None:
                c = Cell(v, 'drop-tmp')
                self.call(d, [Ref(c, (), True)])
                v = c.v
            for f in v.fields:
                self.drop_value(f)
            return
        if isinstance(v, Vec):
            for e in v.elems:
                self.drop_value(e)
            return
        if isinstance(v, BoxV):
            inner = v.cell.v
            v.cell.v = MOVED
            self.drop_value(inner)
            return
        if isinstance(v, ArcV) and getattr(self, 'oracle', False):
            inner = v.cell.v
            k = self.nondet(2, 'arc_dec')
            self.ops.append({'kind': 'arc_dec', 'out': ['zero', 'nonzero'][k], 'label': inner.label})
            if k == 0:
                self.drop_value(inner.value.v)
            return
        if isinstance(v, ArcV):
            inner = v.cell.v
            if not isinstance(inner, ArcInner):
                raise Unsupported('Arc dropped twice')
            n = inner.strong - 1
            self.events.append(('arc_dec', inner.label, n))
            if n == 0:
                v.cell.v = MOVED
                pointee = inner.value.v
                inner.value.v = MOVED
                self.drop_value(pointee)
            else:
                v.cell.v = ArcInner(inner.value, n, inner.label)
            return
        if isinstance(v, Closure):
            for c in v.captures:
                self.drop_value(c)
            return
        if isinstance(v, Native):
            h = self.natives.get(v.rty, {}).get('drop')
            if h is not None:
                h(self, v)
            return
        raise Unsupported('drop of %r' % (v,))


CONST_INT = re.compile(r'^(-?\d+)_(u8|u16|u32|u64|u128|usize|i8|i16|i32|i64|i128|isize)$')


_frame_serial = itertools.count(1)


class Frame:
    def __init__(self, ex: Explorer, f: Func):
        self.ex = ex
        self.f = f
        self.locals: Dict[int, Cell] = {}
        self.serial = next(_frame_serial)      # NOT id(self): ids are reused after garbage collection

    def cell(self, n: int) -> Cell:
        c = self.locals.get(n)
        if c is None:
            c = Cell(UNINIT, '%s:_%d' % (self.f.name[-30:], n))
            self.locals[n] = c
        return c

    # -- places -------------------------------------------------------------------
    def resolve(self, pl: Place) -> Ref:
        """Resolve a place to (cell, path)."""
        ex = self.ex
        cell = self.cell(pl.local)
        path: Tuple[Any, ...] = ()
        for pr in pl.proj:
            k = pr[0]
            if k == 'deref':
                v = ex.load(Ref(cell, path))
                if isinstance(v, Ref):
                    cell, path = v.cell, v.path
                elif isinstance(v, BoxV):
                    cell, path = v.cell, ()
                elif isinstance(v, Native) and v.rty == 'rawptr':
                    r = v.state
                    cell, path = r.cell, r.path
                else:
                    raise Unsupported('deref of %r in %s' % (v, self.f.name))
            elif k == 'field':
                path = path + (pr[1],)
            elif k == 'downcast':
                v = ex.load(Ref(cell, path))
                if not (isinstance(v, Agg) and v.kind == 'enum'):
                    raise Unsupported('downcast of non-enum %r' % (v,))
                if v.variant != pr[1]:
                    # reading a field of the wrong variant would be UB in real code; MIR only does
                    # this after a discriminant switch, so this is an executor error
                    raise Unsupported('downcast %s but value is %s::%s' % (pr[1], v.name, v.variant))
            elif k == 'index':
                iv = ex.load(Ref(self.cell(pr[1])))
                c = iv.concrete()
                if c is None:
                    raise Unsupported('symbolic index')
                path = path + (c,)
            elif k == 'cindex':
                n, of, from_end = pr[1], pr[2], pr[3]
                if from_end:
                    v = ex.load(Ref(cell, path))
                    path = path + (len(v.elems) - n,)
                else:
                    path = path + (n,)
            else:
                raise Unsupported('projection ' + k)
        return Ref(cell, path)

    def read_place(self, pl: Place):
        r = self.resolve(pl)
        v = self.ex.load(r)
        if v is UNINIT:
            raise Unsupported('read of uninitialised %r in %s' % (pl, self.f.name))
        return v

    def write_place(self, pl: Place, val):
        if not pl.proj:
            self.cell(pl.local).v = val
            return
        # assignment to a field of an uninitialised local builds the aggregate lazily
        r = self.resolve(pl)
        self.ex.store(r, val)

    # -- operands -----------------------------------------------------------------
    def operand(self, op: Operand):
        if op.kind == 'copy':
            return self.read_place(op.place)
        if op.kind == 'move':
            v = self.read_place(op.place)
            if not op.place.proj:
                # leave scalars in place (MIR may `move` a Copy temp and re-read it in an assert message)
                if not isinstance(v, (Int, Bool, Float, Unit, Str, Ref)):
                    self.cell(op.place.local).v = MOVED
            return v
        return self.const(op.const)

    def const(self, c: str):
        ex = self.ex
        c = c.strip()
        m = CONST_INT.match(c)
        if m:
            return mk_int(int(m.group(1)), m.group(2))
        if c == 'true':
            return TRUE
        if c == 'false':
            return FALSE
        if c == '()':
            return UNIT
        if c.startswith('"'):
            return Str((_unescape(c[1:-1]),), 'str')
        if c.startswith('b"'):
            return Str((_unescape(c[2:-1]),), 'bytes')
        if c.startswith("'"):
            ch = _unescape(c[1:-1]).decode('utf-8')
            return mk_int(ord(ch), 'char')
        mg = re.match(r'^\{alloc\d+: &(.*)\}$', c)
        if mg:
            # the address of a static: the harness provides the object
            tk = type_key(mg.group(1))
            g = getattr(ex, 'globals', {})
            if tk in g:
                return Ref(g[tk], (), False)
            raise Unsupported('static of type %s has no model' % tk)
        if c.startswith('ZeroSized: '):
            ty = c[len('ZeroSized: '):].strip()
            if ty.startswith('{closure@'):
                fn = ex.prog.closure_fn(ty)
                if fn is None:
                    raise Unsupported('closure body not found: ' + ty)
                return Closure(fn, ty)
            if ty.startswith('PhantomData'):
                return Agg('struct', 'PhantomData', None, ())
            if ty.startswith('fn(') or re.match(r'^[a-z_:A-Z<]', ty):
                return FnItem(ty)
            raise Unsupported('ZeroSized const ' + ty)
        m = re.match(r'^(.*) as ([a-z0-9]+) \(IntToInt\)$', c)
        if m:
            inner = self.const(m.group(1))
            return _int_cast(inner, m.group(2))
        # float constants like 1f64 / 0.5f64
        m = re.match(r'^(-?[0-9][0-9_.eE+-]*|inf|-inf|NaN)f64$', c)
        if m:
            import struct
            bits = struct.unpack('<Q', struct.pack('<d', float(m.group(1).replace('_', ''))))[0]
            return Float(z3.BitVecVal(bits, 64))
        # named constants: evaluate the const item
        return self.named_const(c)

    def named_const(self, c: str):
        ex = self.ex
        prog = ex.prog
        key = strip_generics(c)
        if 'SizedTypeProperties>::ALIGN' in c or 'SizedTypeProperties>::SIZE' in c:
            return mk_int(8, 'usize')          # pointer-sized payloads (Option<Arc<T>>)
        if key in ('core::num::<impl u64>::MAX', 'u64::MAX', 'core::num::MAX'):
            return mk_int((1 << 64) - 1, 'u64')
        if key.endswith('u64>::MAX') or c.endswith('impl u64>::MAX'):
            return mk_int((1 << 64) - 1, 'u64')
        # unit struct / unit variant constants are written without 'const' normally; handle a few
        cands = [n for n, f in prog.funcs.items() if f.kind in ('const', 'constval', 'promoted') and _const_name_match(n, c)]
        pm = re.search(r'::([A-Za-z_0-9]+)(?:::<.*>)?::(promoted\[\d+\])$', c)
        if not cands and pm:
            # `<Type as Trait>::method::<G>::promoted[0]`: the promoted of the function this frame executes
            own = re.sub(r'#\d+$', '', self.f.name) + '::' + pm.group(2)
            if own in prog.funcs:
                cands = [own]
        pm2 = re.search(r'(promoted\[\d+\])$', c)
        if not cands and pm2:
            own = re.sub(r'#\d+$', '', self.f.name) + '::' + pm2.group(1)
            if own in prog.funcs:
                cands = [own]
        if len(cands) == 1:
            f = prog.funcs[cands[0]]
            if f.kind == 'constval':
                return self.const(f.const_value)
            if re.match(r'^(?:std::thread::)?LocalKey<', f.ret_type.strip()):
                # a `thread_local!` key: modelled by the stubs of LocalKey::with (per-thread slot, lazily initialised
                # by the key's own init function) instead of std's storage internals
                return Native('LocalKey', f.name, fresh_id())
            return Frame(ex, f).run([])
        if len(cands) > 1:
            # prefer same-module
            mod = self.f.name.split('::')[0]
            pick = [n for n in cands if n.startswith(mod + '::')]
            if len(pick) == 1:
                f = prog.funcs[pick[0]]
                return self.const(f.const_value) if f.kind == 'constval' else Frame(ex, f).run([])
        h = ex.stubs.get('const ' + key)
        if h:
            return h(ex, c)
        if re.match(r'^[A-Z][A-Za-z0-9_]*$', c):
            # unit struct constant such as `const GlobalDefaultNotSet`
            return Agg('struct', c, None, ())
        m = re.match(r'^(?:[A-Za-z_0-9:<>\' ,]+)::([A-Z][A-Za-z0-9]+)(\(.*\))?$', c)
        if m and ('Result::' in c or 'Option::' in c):
            # const Result::<Infallible, std::fmt::Error>::Err(std::fmt::Error)
            return _ctor_value(ex, strip_generics(c.split('(')[0]), [Agg('struct', 'Error', None, ())] if m.group(2) else [])
        raise Unsupported('constant %r in %s' % (c, self.f.name))

    # -- rvalues ------------------------------------------------------------------
    def rvalue(self, rv: Rvalue):
        ex = self.ex
        k = rv.kind
        if k == 'use':
            return self.operand(rv.args[0])
        if k == 'ref':
            mut, pl = rv.args
            r = self.resolve(pl)
            if mut in ('rawconst', 'rawmut'):
                return Native('rawptr', Ref(r.cell, r.path, True))
            # reborrow of a str/slice value through a deref: keep the value itself
            if pl.proj and pl.proj[-1][0] == 'deref':
                inner = ex.load(Ref(self.cell(pl.local)))
                # &*x where x is &str / &[u8] represented by value
                base = self.read_place(Place(pl.local, pl.proj[:-1]))
                if isinstance(base, (Str,)):
                    return base
            return Ref(r.cell, r.path, mut == 'mut')
        if k == 'binop':
            return self.binop(rv.args[0], self.operand(rv.args[1]), self.operand(rv.args[2]))
        if k == 'unop':
            return self.unop(rv.args[0], self.operand(rv.args[1]))
        if k == 'discriminant':
            v = self.read_place(rv.args[0])
            if isinstance(v, Agg) and v.kind == 'enum':
                return mk_int(v.vidx, 'isize')
            raise Unsupported('discriminant of %r in %s' % (v, self.f.name))
        if k == 'cast':
            op, ty, kind = rv.args
            v = self.operand(op)
            return self.cast(v, ty, kind)
        if k == 'aggregate':
            akind, path, _, items = rv.args
            if akind == 'tuple':
                return Agg('tuple', '', None, tuple(self.operand(o) for o in items)) if items else UNIT
            if akind == 'array':
                return Vec(tuple(self.operand(o) for o in items), 'array')
            if akind == 'closure':
                fn = ex.prog.closure_fn(path)
                if fn is None:
                    raise Unsupported('closure body not found: ' + path)
                return Closure(fn, path, tuple(self.operand(o) for _, o in items), tuple(n for n, _ in items))
            if akind == 'struct':
                name = last_seg(path)
                # enum struct-like variants are not used in these crates
                return Agg('struct', name, None, tuple(self.operand(o) for _, o in items))
            if akind == 'ctor':
                pth = strip_generics(path)
                if '::' not in pth and getattr(self, 'dest_ty', None):
                    # const bodies print enum values by their variant name only; the local's type says which enum
                    dty = strip_generics(self.dest_ty)
                    vs = STD_ENUMS.get(dty.split('::')[-1]) or enum_variants(ex.prog, dty.split('::')[-1]) or []
                    if 'io::ErrorKind' in dty or 'io::error::ErrorKind' in dty or pth in vs:
                        pth = dty + '::' + pth
                return _ctor_value(ex, pth, [self.operand(o) for o in items])
        if k == 'len':
            v = self.read_place(rv.args[0])
            if isinstance(v, Vec):
                return mk_int(len(v.elems), 'usize')
            if isinstance(v, Str):
                return Int(v.length(), 'usize')
        if k == 'repeat':
            raise Unsupported('array repeat')
        raise Unsupported('rvalue kind %s in %s' % (k, self.f.name))

    def cast(self, v, ty: str, kind: str):
        ex = self.ex
        if kind == 'IntToInt':
            if isinstance(v, Bool):
                v = Int(z3.If(v.t, z3.BitVecVal(1, 8), z3.BitVecVal(0, 8)), 'u8')
            return _int_cast(v, ty.strip())
        if kind == 'FloatToInt':
            if not isinstance(v, Float) or ty.strip() not in INT_TYPES:
                raise Unsupported('FloatToInt cast of %r to %s' % (v, ty))
            bits, signed = INT_TYPES[ty.strip()]
            f = z3.fpBVToFP(v.bits, z3.Float64())
            # Rust `as`: NaN -> 0, saturating at the bounds, otherwise truncation toward zero
            if signed:
                lo, hi = -(1 << (bits - 1)), (1 << (bits - 1)) - 1
                conv = z3.fpToSBV(z3.RTZ(), f, z3.BitVecSort(bits))
            else:
                lo, hi = 0, (1 << bits) - 1
                conv = z3.fpToUBV(z3.RTZ(), f, z3.BitVecSort(bits))
            flo = z3.fpSignedToFP(z3.RTZ(), z3.BitVecVal(lo, bits + 1), z3.Float64()) if signed else z3.FPVal(0.0, z3.Float64())
            fhi = z3.FPVal(float(hi + 1), z3.Float64())
            t = z3.If(z3.fpIsNaN(f), z3.BitVecVal(0, bits),
                      z3.If(z3.fpLEQ(f, flo), z3.BitVecVal(lo, bits),
                            z3.If(z3.fpGEQ(f, fhi), z3.BitVecVal(hi, bits), conv)))
            return Int(t, ty.strip())
        if kind == 'IntToFloat':
            if not isinstance(v, Int) or ty.strip() != 'f64':
                raise Unsupported('IntToFloat cast of %r to %s' % (v, ty))
            f = z3.fpSignedToFP(z3.RNE(), v.t, z3.Float64()) if v.signed else z3.fpUnsignedToFP(z3.RNE(), v.t, z3.Float64())
            return Float(z3.fpToIEEEBV(f))
        if kind.startswith('PointerCoercion') or kind in ('Transmute', 'PtrToPtr', 'Subtype'):
            if kind == 'Transmute' and not isinstance(v, (Ref, BoxV, ArcV, Native)):
                raise Unsupported('transmute of %r' % (v,))
            if kind == 'Transmute' and isinstance(v, BoxV) and ty.strip().startswith('*'):
                return Native('rawptr', Ref(v.cell, (), True))
            if kind == 'Transmute' and isinstance(v, Native) and v.rty == 'rawptr' and ty.strip() in INT_TYPES:
                return mk_int(0x1000, ty.strip())      # a non-null, well-aligned address
            return v
        raise Unsupported('cast kind %s' % kind)

    def unop(self, op, a):
        if op == 'Not':
            if isinstance(a, Bool):
                return Bool(z3.Not(a.t))
            return Int(~a.t, a.ty)
        if op == 'Neg':
            if isinstance(a, Float):
                return Float(a.bits ^ z3.BitVecVal(1 << 63, 64))
            return Int(-a.t, a.ty)
        if op == 'PtrMetadata':
            a = self.ex.deref_all(a) if isinstance(a, Ref) else a
            if isinstance(a, Str):
                return Int(a.length(), 'usize')
            if isinstance(a, Vec):
                return mk_int(len(a.elems), 'usize')
            if isinstance(a, Native) and a.rty == 'rawptr':
                return self.unop(op, self.ex.load(a.state))
        raise Unsupported('unop %s on %r' % (op, a))

    def binop(self, op, a, b):
        if isinstance(a, Bool) and isinstance(b, Bool):
            if op == 'Eq':
                return Bool(a.t == b.t)
            if op == 'Ne':
                return Bool(a.t != b.t)
            if op == 'BitAnd':
                return Bool(z3.And(a.t, b.t))
            if op == 'BitOr':
                return Bool(z3.Or(a.t, b.t))
            if op == 'BitXor':
                return Bool(z3.Xor(a.t, b.t))
        if isinstance(a, Float) and isinstance(b, Float):
            fa, fb = z3.fpBVToFP(a.bits, z3.Float64()), z3.fpBVToFP(b.bits, z3.Float64())
            if op == 'Eq':
                return Bool(z3.fpEQ(fa, fb))
            if op == 'Ne':
                return Bool(z3.Not(z3.fpEQ(fa, fb)))
            if op == 'Lt':
                return Bool(z3.fpLT(fa, fb))
            if op == 'Le':
                return Bool(z3.fpLEQ(fa, fb))
            if op == 'Gt':
                return Bool(z3.fpGT(fa, fb))
            if op == 'Ge':
                return Bool(z3.fpGEQ(fa, fb))
            rm = z3.RNE()
            if op == 'Add':
                return Float(z3.fpToIEEEBV(z3.fpAdd(rm, fa, fb)))
            if op == 'Sub':
                return Float(z3.fpToIEEEBV(z3.fpSub(rm, fa, fb)))
            if op == 'Mul':
                return Float(z3.fpToIEEEBV(z3.fpMul(rm, fa, fb)))
            if op == 'Div':
                return Float(z3.fpToIEEEBV(z3.fpDiv(rm, fa, fb)))
            raise Unsupported('floating-point operation ' + op)
        if isinstance(a, Float) or isinstance(b, Float):
            raise Unsupported('mixed floating-point operation %s' % op)
        if not (isinstance(a, Int) and isinstance(b, Int)):
            raise Unsupported('binop %s on %r, %r' % (op, a, b))
        x, y, s, bits = a.t, b.t, a.signed, a.bits
        if op in ('Shl', 'Shr', 'ShlUnchecked', 'ShrUnchecked') and b.bits != bits:
            y = z3.ZeroExt(bits - b.bits, y) if b.bits < bits else z3.Extract(bits - 1, 0, y)
        if op in ('Add', 'AddUnchecked'):
            return Int(x + y, a.ty)
        if op in ('Sub', 'SubUnchecked'):
            return Int(x - y, a.ty)
        if op in ('Mul', 'MulUnchecked'):
            return Int(x * y, a.ty)
        if op == 'Div':
            return Int((x / y) if s else z3.UDiv(x, y), a.ty)
        if op == 'Rem':
            return Int(z3.SRem(x, y) if s else z3.URem(x, y), a.ty)
        if op == 'BitAnd':
            return Int(x & y, a.ty)
        if op == 'BitOr':
            return Int(x | y, a.ty)
        if op == 'BitXor':
            return Int(x ^ y, a.ty)
        if op in ('Shl', 'ShlUnchecked'):
            return Int(x << y, a.ty)
        if op in ('Shr', 'ShrUnchecked'):
            return Int((x >> y) if s else z3.LShR(x, y), a.ty)
        if op == 'Eq':
            return Bool(x == y)
        if op == 'Ne':
            return Bool(x != y)
        if op == 'Lt':
            return Bool((x < y) if s else z3.ULT(x, y))
        if op == 'Le':
            return Bool((x <= y) if s else z3.ULE(x, y))
        if op == 'Gt':
            return Bool((x > y) if s else z3.UGT(x, y))
        if op == 'Ge':
            return Bool((x >= y) if s else z3.UGE(x, y))
        if op == 'AddWithOverflow' and not s and self.ex.var_bounds and ubound(self.ex, x) + ubound(self.ex, y) < (1 << bits):
            return Agg('tuple', '', None, (Int(x + y, a.ty), FALSE))
        if op == 'MulWithOverflow' and not s and self.ex.var_bounds and ubound(self.ex, x) * ubound(self.ex, y) < (1 << bits):
            return Agg('tuple', '', None, (Int(x * y, a.ty), FALSE))
        if op == 'AddWithOverflow':
            if s:
                ovf = z3.Not(z3.And(z3.BVAddNoOverflow(x, y, True), z3.BVAddNoUnderflow(x, y)))
            else:
                ovf = z3.Not(z3.BVAddNoOverflow(x, y, False))
            return Agg('tuple', '', None, (Int(x + y, a.ty), Bool(ovf)))
        if op == 'SubWithOverflow':
            if s:
                ovf = z3.Not(z3.And(z3.BVSubNoOverflow(x, y), z3.BVSubNoUnderflow(x, y, True)))
            else:
                ovf = z3.ULT(x, y)
            return Agg('tuple', '', None, (Int(x - y, a.ty), Bool(ovf)))
        if op == 'MulWithOverflow':
            ovf = z3.Not(z3.And(z3.BVMulNoOverflow(x, y, s), z3.BVMulNoUnderflow(x, y) if s else z3.BoolVal(True)))
            return Agg('tuple', '', None, (Int(x * y, a.ty), Bool(ovf)))
        raise Unsupported('binop ' + op)

    # -- main loop ----------------------------------------------------------------
    def run(self, args: List[Any]):
        ex = self.ex
        f = self.f
        ex.stats.functions.add(f.name)
        if len(args) != len(f.arg_types):
            raise Unsupported('arity mismatch calling %s: %d args for %d params' % (f.name, len(args), len(f.arg_types)))
        for i, a in enumerate(args):
            self.cell(i + 1).v = a
        ct = getattr(ex, 'call_trace', None)
        if ct:
            info = ex.prog.impl_of.get(f.name)
            if info is not None:
                meth = f.name.split('::')[-1].split('#')[0]
                if (strip_generics(info.self_ty), meth) in ct:
                    ex.events.append(('enter', strip_generics(info.self_ty), meth, tuple(args[1:2])))
        ex.depth += 1
        if ex.depth > 200:
            raise Unsupported('call depth exceeded in ' + f.name)
        try:
            return self._run()
        finally:
            ex.depth -= 1

    def _goto_unwind(self, uw, payload):
        """Return the cleanup block to continue at, or raise."""
        kind, bb = uw
        if kind == 'bb':
            self.unwinding = payload
            return bb
        if kind == 'continue':
            raise Unwinding(payload)
        if kind in ('terminate', 'unreachable'):
            raise Abort('unwind %s after %r' % (kind, payload))
        raise Unsupported('unwind kind ' + kind)

    def _run(self):
        ex = self.ex
        f = self.f
        bb = 'bb0'
        self.unwinding = None
        while True:
            blk = f.blocks[bb]
            key = (self.serial, f.name, bb)
            ex.visit_count[key] = ex.visit_count.get(key, 0) + 1
            if ex.visit_count[key] > ex.loop_bound:
                raise PathCut('loop bound %d exceeded at %s %s' % (ex.loop_bound, f.name, bb))
            if getattr(ex, 'loop_cut', False) and ex.visit_count[key] == 2:
                from .queue_extract import LoopBack
                raise LoopBack(f.name, bb)
            for st in blk.stmts:
                ex.stats.steps += 1
                if st.kind == 'nop':
                    continue
                if st.kind == 'assign':
                    try:
                        self.dest_ty = f.locals.get(st.place.local) if not st.place.proj else None
                        self.write_place(st.place, self.rvalue(st.rvalue))
                    except Unsupported as e:
                        raise Unsupported('%s  [at `%s` in %s]' % (e, st.text.strip(), f.name)) from None
                elif st.kind == 'setdiscr':
                    raise Unsupported('SetDiscriminant')
            t = blk.term
            ex.stats.steps += 1
            k = t.kind
            if k == 'goto':
                bb = t.data['target']
            elif k == 'return':
                v = self.cell(0).v
                return UNIT if v is UNINIT else v
            elif k == 'resume':
                raise Unwinding(self.unwinding)
            elif k == 'unreachable':
                raise Unsupported('reached `unreachable` in %s %s' % (f.name, bb))
            elif k == 'abort':
                raise Abort('abort in ' + f.name)
            elif k == 'switch':
                v = self.operand(t.data['op'])
                bb = self.switch(v, t.data['targets'])
            elif k == 'assert':
                c = self.operand(t.data['cond'])
                ok = z3.Not(c.t) if t.data['neg'] else c.t
                ok = z3.simplify(ok)
                if z3.is_true(ok):
                    bb = t.data['ret']
                else:
                    holds = ex.choose([ok, z3.Not(ok)], ['assert-ok', 'assert-fail']) == 0
                    if holds:
                        bb = t.data['ret']
                    else:
                        payload = ('assert', f.name, bb, t.data['msg'])
                        ex.events.append(('panic', payload))
                        bb = self._goto_unwind(t.data['unwind'], payload)
            elif k == 'drop':
                try:
                    v = self.read_place(t.data['place'])
                except Unsupported:
                    v = MOVED
                try:
                    if v is not MOVED and v is not UNINIT:
                        if not t.data['place'].proj:
                            self.cell(t.data['place'].local).v = MOVED
                        ex.drop_value(v)
                    bb = t.data['ret']
                except Unwinding as u:
                    bb = self._goto_unwind(t.data['unwind'], u.payload)
            elif k == 'call':
                bb = self.do_call(t)
            else:
                raise Unsupported('terminator ' + k)

    def switch(self, v, targets):
        ex = self.ex
        if isinstance(v, Bool):
            v = Int(z3.If(v.t, z3.BitVecVal(1, 8), z3.BitVecVal(0, 8)), 'u8')
        if not isinstance(v, Int):
            raise Unsupported('switchInt on %r' % (v,))
        c = v.concrete()
        if c is not None:
            for val, tgt in targets:
                if val is None or _wrap(val, v.bits, v.signed) == c:
                    return tgt
            raise Unsupported('switchInt: no target')
        conds = []
        others = []
        for val, tgt in targets:
            if val is None:
                conds.append(z3.And(*others) if others else z3.BoolVal(True))
            else:
                e = v.t == z3.BitVecVal(val, v.bits)
                conds.append(e)
                others.append(z3.Not(e))
        i = ex.choose(conds)
        return targets[i][1]

    # -- calls --------------------------------------------------------------------
    def do_call(self, t: Term) -> str:
        ex = self.ex
        d = t.data
        callee = d['callee']
        try:
            args = [self.operand(a) for a in d['args']]
        except Unsupported as e:
            raise Unsupported('%s [args of `%s` in %s]' % (e, t.text.strip(), self.f.name)) from None
        try:
            res = dispatch(ex, self, callee, args)
        except Unwinding as u:
            return self._goto_unwind(d['unwind'], u.payload)
        except Unsupported as e:
            if '[call' in str(e):
                raise
            raise Unsupported('%s [call `%s` in %s]' % (e, callee, self.f.name)) from None
        if d['ret'] is None:
            raise Unsupported('diverging call returned: ' + callee)
        if d['dest'] is not None:
            self.write_place(d['dest'], res)
        return d['ret']


_ub_cache = {}


def ubound(ex, t):
    """A cheap syntactic upper bound (as unsigned) of a bit-vector term, using the declared bounds of
    input variables (`ex.var_bounds`). Only used to skip solver queries whose answer is obvious."""
    key = t.get_id()
    r = _ub_cache.get(key)
    if r is not None and r[0] is ex.var_bounds and r[2].eq(t):
        return r[1]
    bits = t.size()
    full = (1 << bits) - 1
    k = t.decl().kind()
    if z3.is_bv_value(t):
        v = t.as_long()
    elif k == z3.Z3_OP_UNINTERPRETED and t.num_args() == 0:
        v = min(full, ex.var_bounds.get(t.decl().name(), full))
    elif k == z3.Z3_OP_BADD:
        v = min(full, sum(ubound(ex, c) for c in t.children()))
        if sum(ubound(ex, c) for c in t.children()) > full:
            v = full
    elif k == z3.Z3_OP_BMUL:
        prod = 1
        for c in t.children():
            prod *= ubound(ex, c)
        v = prod if prod <= full else full
    elif k == z3.Z3_OP_ZERO_EXT:
        v = ubound(ex, t.arg(0))
    elif k == z3.Z3_OP_ITE:
        v = max(ubound(ex, t.arg(1)), ubound(ex, t.arg(2)))
    elif k == z3.Z3_OP_CONCAT and z3.is_bv_value(t.arg(0)) and t.arg(0).as_long() == 0 and t.num_args() == 2:
        v = ubound(ex, t.arg(1))
    else:
        v = full
    _ub_cache[key] = (ex.var_bounds, v, t)      # keeping `t` alive keeps its AST id from being reused
    if len(_ub_cache) > 200000:
        _ub_cache.clear()
    return v


def _wrap(val, bits, signed):
    val &= (1 << bits) - 1
    if signed and val >= (1 << (bits - 1)):
        val -= 1 << bits
    return val


def _unescape(s: str) -> bytes:
    out = bytearray()
    i, n = 0, len(s)
    while i < n:
        c = s[i]
        if c == '\\':
            nx = s[i + 1]
            if nx == 'x':
                out.append(int(s[i + 2:i + 4], 16))
                i += 4
            elif nx == 'n':
                out.append(10)
                i += 2
            elif nx == 't':
                out.append(9)
                i += 2
            elif nx == 'r':
                out.append(13)
                i += 2
            elif nx == '0':
                out.append(0)
                i += 2
            elif nx == 'u':
                j = s.index('}', i)
                out += chr(int(s[i + 3:j], 16)).encode('utf-8')
                i = j + 1
            else:
                out += nx.encode('utf-8')
                i += 2
        else:
            out += c.encode('utf-8', errors='surrogateescape')
            i += 1
    return bytes(out)


def _int_cast(v, ty: str):
    if isinstance(v, Float):
        raise Unsupported('float to int cast')
    if ty not in INT_TYPES:
        raise Unsupported('int cast to ' + ty)
    bits, _ = INT_TYPES[ty]
    if v.bits == bits:
        return Int(v.t, ty)
    if v.bits > bits:
        return Int(z3.Extract(bits - 1, 0, v.t), ty)
    if v.signed:
        return Int(z3.SignExt(bits - v.bits, v.t), ty)
    return Int(z3.ZeroExt(bits - v.bits, v.t), ty)


def _const_name_match(item_name: str, ref: str) -> bool:
    a = strip_generics(item_name)
    b = strip_generics(ref)
    if a == b:
        return True
    # item 'sinks::udp::DEFAULT_BUFFER_SIZE' vs ref 'udp::DEFAULT_BUFFER_SIZE'
    if a.endswith('::' + b) or b.endswith('::' + a):
        return True
    # impl consts: item 'builder::<impl at ..>::TAG_PREFIX' vs ref 'builder::MetricFormatter::TAG_PREFIX'
    if a.split('::')[-1] == b.split('::')[-1] and '<impl at' in item_name and b.split('::')[-1].isupper():
        return a.split('::')[0] == b.split('::')[0]
    return False


IO_ERROR_KINDS = {n: i for i, n in enumerate([
    'Other', 'Interrupted', 'WouldBlock', 'NotFound', 'PermissionDenied', 'ConnectionRefused', 'ConnectionReset', 'ConnectionAborted',
    'NotConnected', 'AddrInUse', 'AddrNotAvailable', 'BrokenPipe', 'AlreadyExists', 'InvalidInput', 'InvalidData', 'TimedOut',
    'WriteZero', 'Unsupported', 'UnexpectedEof', 'OutOfMemory', 'HostUnreachable', 'NetworkUnreachable', 'NetworkDown', 'Uncategorized'])}

# Enum tables: name -> [variants in declaration order]; discovered lazily from source for crate enums.
STD_ENUMS = {
    'Option': ['None', 'Some'],
    'Result': ['Ok', 'Err'],
    'ControlFlow': ['Continue', 'Break'],
    'TrySendError': ['Full', 'Disconnected'],
    'Ordering': None,
}


def _ctor_value(ex: Explorer, path: str, args: List[Any]):
    """Path like 'Option::Some', 'MetricValue::Signed', 'MetricType::Counter', 'Counter' (tuple struct)."""
    segs = path.split('::')
    name = segs[-1]
    if 'io::ErrorKind' in path or path.startswith('std::io::error::ErrorKind') or (len(segs) >= 2 and segs[-2] == 'ErrorKind' and name in IO_ERROR_KINDS and not ex.prog_has_variant('ErrorKind', name)):
        return Native('ErrorKind', z3.BitVecVal(IO_ERROR_KINDS.get(name, 250), 8))
    if len(segs) >= 2 and segs[-2][:1].isupper():
        ename = segs[-2]
        variants = STD_ENUMS.get(ename) or enum_variants(ex.prog, ename)
        if variants is not None and name in variants:
            return Agg('enum', ename, name, tuple(args), variants.index(name))
        if ename == 'Ordering':
            return Native('Ordering', name)
    # tuple struct or unit struct
    return Agg('struct', name, None, tuple(args))


_enum_cache: Dict[str, Optional[List[str]]] = {}


def enum_variants(prog: Program, ename: str) -> Optional[List[str]]:
    if ename in _enum_cache:
        return _enum_cache[ename]
    import os
    found = None
    for crate, root in prog.src_roots.items():
        for dp, dn, fn in os.walk(root):
            if 'target' in dp.split(os.sep):
                continue
            for n in fn:
                if not n.endswith('.rs'):
                    continue
                txt = open(os.path.join(dp, n), encoding='utf-8').read()
                m = re.search(r'\benum %s\b[^{]*\{' % re.escape(ename), txt)
                if m:
                    close = match_close(txt, m.end() - 1)
                    body = txt[m.end():close]
                    body = re.sub(r'//[^\n]*', '', body)
                    body = re.sub(r'#\[[^\]]*\]', '', body)
                    vs = []
                    for item in split_top(body):
                        w = re.match(r'\s*([A-Za-z_0-9]+)', item)
                        if w:
                            vs.append(w.group(1))
                    found = vs
                    break
            if found:
                break
        if found:
            break
    _enum_cache[ename] = found
    return found


# ----------------------------------------------------------------------------------
# call dispatch
# ----------------------------------------------------------------------------------

QUAL = re.compile(r'^<(.*)>::([A-Za-z_0-9]+)(::<.*>)?$')


@functools.lru_cache(maxsize=None)
def split_qualified(callee: str):
    """'<X as Tr<A>>::m::<G>' -> (X, Tr, A, m) ; 'Type::<G>::m' -> (Type, None, None, m) ; 'free' -> (None,None,None,free)"""
    c = callee.strip()
    if c.startswith('<'):
        close = match_close(c, 0)
        inner = c[1:close]
        rest = c[close + 1:]
        m = re.match(r'^::([A-Za-z_0-9]+)', rest)
        if not m:
            raise Unsupported('callee syntax: ' + callee)
        method = m.group(1)
        # top-level ' as '
        depth = 0
        pos = None
        i = 0
        while i < len(inner):
            ch = inner[i]
            if ch in '-=' and i + 1 < len(inner) and inner[i + 1] == '>':
                i += 2
                continue
            if ch in '<([{':
                depth += 1
            elif ch in '>)]}':
                depth -= 1
            elif depth == 0 and inner.startswith(' as ', i):
                pos = i
            i += 1
        if pos is None:
            return inner.strip(), None, None, method
        ty = inner[:pos].strip()
        tr = inner[pos + 4:].strip()
        targs = None
        if '<' in tr:
            k = tr.index('<')
            targs = tr[k + 1:match_close(tr, k)]
            tr = tr[:k]
        return ty, tr.split('::')[-1], targs, method
    mi = re.match(r'^core::(?:num|str|slice|f64|char)::(?:[a-z_]+::)*<impl (.+)>::([A-Za-z_0-9]+)(::<.*>)?$', c)
    if mi:
        base = mi.group(1)
        if base.startswith('['):
            base = 'slice'
        return strip_generics(base), None, None, mi.group(2)
    nog = strip_generics(c)
    segs = nog.split('::')
    if len(segs) == 1:
        return None, None, None, segs[0]
    return '::'.join(segs[:-1]), None, None, segs[-1]


@functools.lru_cache(maxsize=None)
def norm_callee(callee: str) -> str:
    ty, tr, targs, method = split_qualified(callee)
    if ty is None:
        return method
    tyk = last_seg(ty) if not ty.startswith(('dyn ', '&', '[', '(', '{')) else strip_generics(ty)
    if ty.startswith('impl '):
        tyk = ty
    if tr is not None:
        return '<%s as %s>::%s' % (tyk, tr, method)
    return '%s::%s' % (tyk, method)


def dispatch(ex: Explorer, frame: Frame, callee: str, args: List[Any]):
    prog = ex.prog
    # 0. calls through a local holding a closure / fn item (e.g. `move _5(args)`)
    if re.match(r'^(move|copy) ', callee):
        raise Unsupported('indirect call ' + callee)
    ty, tr, targs, method = split_qualified(callee)
    key = norm_callee(callee)

    # 1. exact stubs take precedence (std functions)
    h = ex.stubs.get(key)
    if h is not None:
        ex.stats.stubs.add(key)
        return h(ex, args, callee)

    # 2. crate functions
    #    a) free functions (also when printed with a module / crate path, e.g. #[doc(hidden)] items, which rustc
    #       never prints by their trimmed name)
    if ty is not None and tr is None and re.match(r'^[a-z_][a-z0-9_]*(::[a-z_][a-z0-9_]*)*$', ty.strip()) and method in prog.free:
        ty = None
    if ty is None:
        c = prog.free.get(method, [])
        if len(c) > 1:
            mod = frame.f.name.split('::')[0] if frame is not None else ''
            # prefer same module path prefix
            pre = '::'.join(frame.f.name.split('::<')[0].split('::')[:-1]) if frame is not None else ''
            pick = [n for n in c if n.startswith(pre)] or [n for n in c if n.startswith(mod)]
            if len(pick) == 1:
                c = pick
        if len(c) == 1:
            return ex.call(c[0], args)
        if len(c) > 1:
            raise Unsupported('ambiguous free function ' + callee)
    else:
        recv_ty = None
        tyk = type_key(ty)
        generic_self = bool(re.match(r'^(Self|[A-Z][A-Za-z0-9]?|<.*>|dyn .*|impl .*)$', ty.strip())) and tyk not in ('Vec', 'Box', 'Arc', 'String', 'Option', 'Result')
        # receiver-driven dispatch for generic / dyn Self
        if generic_self and args:
            if method in ('call', 'call_mut', 'call_once') and isinstance(ex.deref_all(args[0]) if isinstance(args[0], Ref) else args[0], (Closure, FnItem)):
                return call_closure(ex, ex.deref_all(args[0]) if isinstance(args[0], Ref) else args[0], args)
            if method in ('from', 'default', 'new') and not isinstance(args[0], (Ref, Native, Agg, BoxV, ArcV)):
                recv_ty = None
            else:
                try:
                    recv_ty = ex.rtype(args[0])
                except Unsupported:
                    recv_ty = None
            if recv_ty is not None:
                v0 = ex.deref_all(args[0])
                if isinstance(v0, BoxV):
                    v0 = v0.cell.v
                if isinstance(v0, ArcV):
                    v0 = v0.cell.v.value.v
                if isinstance(v0, Native):
                    nh = ex.natives.get(v0.rty, {})
                    fn = nh.get('%s::%s' % (tr, method)) or nh.get(method)
                    if fn is not None:
                        ex.stats.env_calls.add('%s::%s on %s' % (tr, method, v0.rty))
                        return fn(ex, args, callee)
                if isinstance(v0, (Closure, FnItem)) and method in ('call', 'call_mut', 'call_once'):
                    return call_closure(ex, v0, args)
                name = prog.find_impl_method(method, recv_ty, tr, type_key(targs) if targs else None)
                if name is None and tr is not None:
                    name = prog.traits_default.get((tr, method))
                if name is not None:
                    return ex.call(name, args)
                h = ex.stubs.get('<%s as %s>::%s' % (strip_generics(recv_ty), tr, method))
                if h is not None:
                    ex.stats.stubs.add('<%s as %s>::%s' % (strip_generics(recv_ty), tr, method))
                    return h(ex, args, callee)
                h = ex.stubs.get('<* as %s>::%s' % (tr, method))
                if h is not None:
                    ex.stats.stubs.add('<* as %s>::%s' % (tr, method))
                    return h(ex, args, callee)
                raise Unsupported('no implementation of %s::%s for runtime type %s' % (tr, method, recv_ty))
        else:
            name = prog.find_impl_method(method, tyk, tr, type_key(targs) if targs else None)
            if name is None and tr is not None and tyk and tyk[:1].isupper():
                # trait default method on a crate type
                if prog.find_impl_method_any_trait(tr, tyk) if hasattr(prog, 'find_impl_method_any_trait') else False:
                    name = prog.traits_default.get((tr, method))
            if name is None and tr is not None and (tr, method) in prog.traits_default and _is_crate_type(prog, tyk):
                name = prog.traits_default[(tr, method)]
            if name is None and tr is None:
                # `Trait::method` path call to a default method, or assoc fn printed by path
                name = prog.traits_default.get((last_seg(ty), method))
            if name is not None:
                return ex.call(name, args)
            # native receiver with a concrete type name
            if args:
                v0 = ex.deref_all(args[0]) if isinstance(args[0], Ref) else args[0]
                if isinstance(v0, Native):
                    nh = ex.natives.get(v0.rty, {})
                    fn = nh.get('%s::%s' % (tr, method)) or nh.get(method)
                    if fn is not None:
                        ex.stats.env_calls.add('%s::%s on %s' % (tr, method, v0.rty))
                        return fn(ex, args, callee)

    # 3. wildcard stubs
    if tr is not None:
        h = ex.stubs.get('<* as %s>::%s' % (tr, method))
        if h is not None:
            ex.stats.stubs.add('<* as %s>::%s' % (tr, method))
            return h(ex, args, callee)
    for pat, h in ex.stub_patterns:
        if pat.match(key):
            ex.stats.stubs.add(key)
            return h(ex, args, callee)
    raise Unsupported('unknown callee %s (normalised %s)' % (callee, key))


def _is_crate_type(prog: Program, tyk: str) -> bool:
    t = strip_generics(tyk)
    return any(strip_generics(i.self_ty) == t for i in prog.impl_of.values())


def call_callable(ex: Explorer, fv, params: List[Any]):
    """Call a closure / fn item / boxed callable value with positional parameters."""
    target = fv
    holder = None
    while isinstance(target, (Ref, BoxV)):
        holder = target
        target = ex.load(target) if isinstance(target, Ref) else target.cell.v
    tup = Agg('tuple', '', None, tuple(params)) if params else UNIT
    if isinstance(target, Closure):
        return call_closure(ex, target, [holder if isinstance(holder, Ref) else target, tup])
    if isinstance(target, FnItem):
        name = target.name
        m = re.match(r'^fn\(.*\)(?: -> .*)? \{(.*)\}$', name)
        if m:
            name = m.group(1)
        return dispatch(ex, None, name, list(params))
    if isinstance(target, Native):
        h = ex.natives.get(target.rty, {}).get('Fn::call')
        if h is not None:
            ex.stats.env_calls.add('Fn::call on ' + target.rty)
            return h(ex, [target, tup], 'call')
    raise Unsupported('call of %r' % (target,))


def call_closure(ex: Explorer, clo, args: List[Any]):
    """args = [closure-or-ref, args_tuple]"""
    if not isinstance(clo, Closure):
        tup0 = args[1]
        return call_callable(ex, clo, list(tup0.fields) if isinstance(tup0, Agg) else ([] if isinstance(tup0, Unit) else [tup0]))
    f = ex.prog.funcs[clo.fn]
    tup = args[1]
    params = list(tup.fields) if isinstance(tup, Agg) else ([] if isinstance(tup, Unit) else [tup])
    first = f.arg_types[0]
    if first.startswith('&'):
        c = args[0] if isinstance(args[0], Ref) else Ref(Cell(clo, 'closure-env'), (), True)
    else:
        c = clo
    return ex.call(clo.fn, [c] + params)
