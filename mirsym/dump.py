"""Regenerate the MIR of /repo's current working tree (never cached across runs)."""
import atexit
import hashlib
import os
import shutil
import subprocess
import tempfile
import time

from .program import Program
from .mirparse import Unsupported

REPO = os.environ.get('VERIF_REPO', '/repo')
VERIF = os.path.dirname(os.path.dirname(os.path.abspath(__file__)))
_scratch = None


def scratch_dir():
    global _scratch
    if _scratch is None:
        base = os.environ.get('VERIF_SCRATCH_BASE', tempfile.gettempdir())
        _scratch = tempfile.mkdtemp(prefix='verif-run-', dir=base)
        os.environ['VERIF_SCRATCH'] = _scratch
        atexit.register(lambda: shutil.rmtree(_scratch, ignore_errors=True))
    return _scratch


def source_hash(root):
    h = hashlib.sha256()
    for dp, dn, fn in sorted(os.walk(root)):
        dn[:] = sorted(d for d in dn if d not in ('target', '.git'))
        for n in sorted(fn):
            if n.endswith(('.rs', '.toml', '.lock')):
                p = os.path.join(dp, n)
                h.update(p[len(root):].encode())
                h.update(open(p, 'rb').read())
    return h.hexdigest()[:16]


def copy_repo():
    sd = scratch_dir()
    dst = os.path.join(sd, 'src')
    if os.path.exists(dst):
        return dst
    subprocess.run(['rsync', '-a', '--exclude', 'target', '--exclude', '.git', '--exclude', 'seed_out',
                    REPO.rstrip('/') + '/', dst + '/'], check=True)
    return dst


def dump_mir(extra_crates=()):
    """Returns (Program, info). extra_crates: [(name, dir)] of driver crates to dump as well."""
    t0 = time.time()
    src = copy_repo()
    sd = scratch_dir()
    target = os.path.join(sd, 'target-mir')
    env = dict(os.environ, CARGO_NET_OFFLINE='true', CARGO_TARGET_DIR=target)
    prog = Program()
    info = {'source_hash': source_hash(src), 'crates': {}}
    crates = [('cadence', os.path.join(src, 'cadence')), ('cadence_macros', os.path.join(src, 'cadence-macros'))]
    crates += list(extra_crates)
    for name, d in crates:
        lib = os.path.join(d, 'src', 'lib.rs')
        os.utime(lib, None)
        out = os.path.join(sd, name + '.mir')
        cmd = ['cargo', '+nightly', 'rustc', '--offline', '--lib', '--', '-Zunpretty=mir',
               '-C', 'overflow-checks=on', '-C', 'debug-assertions=on']
        with open(out, 'w') as f:
            r = subprocess.run(cmd, cwd=d, env=env, stdout=f, stderr=subprocess.PIPE, text=True)
        if r.returncode != 0 or os.path.getsize(out) == 0:
            raise Unsupported('MIR dump of %s failed:\n%s' % (name, r.stderr[-2000:]))
        root = src if name in ('cadence', 'cadence_macros') else d
        prog.load(out, name, root)
        info['crates'][name] = {'mir_bytes': os.path.getsize(out)}
    info['dump_s'] = round(time.time() - t0, 2)
    return prog, info
