"""Product of the extracted thread automata of the queuing sink with contract-level models of its shared objects,
unrolled for D steps with a symbolic schedule (which thread moves at step t is an SMT variable).

Shared objects: FIFO channel with capacity (bounded 1..Q, or unbounded), the worker's atomics, Arc strong counts.
Threads: one producer running a symbolic script of <= A actions (emit / clone / drop on interchangeable handles),
the worker thread and up to P respawned workers.
"""
import itertools
import os
import re
import time

import z3

from .mirparse import Unsupported
from .values import *
from .executor import Explorer, Unwinding, call_closure
from . import queue_extract as qe
from .stubs import is_variant


# ---------------------------------------------------------------------------------------------------------
# extraction
# ---------------------------------------------------------------------------------------------------------

class Program:
    """Trie of (op, outcome) paths. nodes[i] = {'op': opkey dict or None, 'edges': {outcome: (dst, opdict)}, 'leaf': info}"""

    def __init__(self, name):
        self.name = name
        self.nodes = [{'op': None, 'edges': {}, 'leaf': None}]
        self.paths = []

    def add_path(self, ops, leaf):
        self.paths.append((ops, leaf))
        n = 0
        for o in ops:
            key = op_key(o)
            node = self.nodes[n]
            if node['leaf'] is not None:
                raise Unsupported('program %s: a path continues after another one ended at the same control state' % self.name)
            if node['op'] is None:
                node['op'] = key
            elif node['op'] != key:
                raise Unsupported('program %s is not deterministic between visible operations: %r vs %r' % (self.name, node['op'], key))
            out = o['out']
            if out not in node['edges']:
                self.nodes.append({'op': None, 'edges': {}, 'leaf': None})
                node['edges'][out] = (len(self.nodes) - 1, o)
            n = node['edges'][out][0]
        node = self.nodes[n]
        if node['op'] is not None or (node['leaf'] is not None and node['leaf'] != leaf):
            raise Unsupported('program %s: ambiguous end of path (%r vs %r)' % (self.name, node['leaf'], leaf))
        node['leaf'] = leaf

    def describe(self):
        out = []
        for ops, leaf in self.paths:
            out.append(' ; '.join(fmt_op(o) for o in ops) + ' => ' + str(leaf))
        return out


def op_key(o):
    k = o['kind']
    if k in ('load', 'store', 'fetch_add'):
        return (k, o['loc'], o.get('value'))
    if k in ('arc_inc', 'arc_dec', 'arc_count', 'arc_upgrade'):
        return (k, o['label'])
    if k in ('try_send', 'send_blocking'):
        return (k, o['payload'][0])
    if k == 'branch':
        return (k,)
    if k == 'wrapped_emit':
        return (k, o['arg'])
    return (k,)


def fmt_op(o):
    extra = ''
    if o['kind'] in ('load', 'store', 'fetch_add'):
        extra = '(%s%s)' % (o['loc'], '' if o.get('value') is None else ',%s' % o['value'])
    elif o['kind'].startswith('arc'):
        extra = '(%s)' % o['label']
    elif o['kind'] in ('try_send', 'send_blocking'):
        extra = '(%s)' % o['payload'][0]
    return '%s%s%s' % (o['kind'], extra, '' if o['out'] is None else '=%s' % o['out'])


def struct_fields(prog, name):
    for crate, root in prog.src_roots.items():
        for dp, dn, fn in os.walk(root):
            if 'target' in dp.split(os.sep):
                continue
            for n in fn:
                if n.endswith('.rs'):
                    txt = open(os.path.join(dp, n)).read()
                    m = re.search(r'struct %s\b[^{;]*\{(.*?)\n\}' % re.escape(name), txt, re.S)
                    if m:
                        body = re.sub(r'//[^\n]*', '', m.group(1))
                        body = re.sub(r'#\[[^\]]*\]', '', body)
                        return re.findall(r'^\s*(?:pub(?:\([a-z]+\))? )?([a-z_0-9]+)\s*:', body, re.M)
    return None


def name_atomics(prog, v, prefix=''):
    """Give every atomic inside a crate struct a stable location name from the field names in the source."""
    if isinstance(v, Agg) and v.kind == 'struct' and v.name:
        names = struct_fields(prog, v.name)
        for i, f in enumerate(v.fields):
            fname = names[i] if names and i < len(names) else str(i)
            name_atomics(prog, f, prefix + fname + '.')
    elif isinstance(v, Native) and v.rty == 'Atomic':
        v.state.name = prefix.rstrip('.')
    elif isinstance(v, ArcV):
        name_atomics(prog, v.cell.v.value.v, prefix)
    elif isinstance(v, BoxV):
        name_atomics(prog, v.cell.v, prefix)


class Extraction:
    def __init__(self, prog, cap_mode, handler, timeout_ms=60000, order='ch'):
        self.prog, self.cap_mode, self.handler = prog, cap_mode, handler
        self.order = order        # builder call order: 'ch' = with_capacity then with_error_handler, 'hc' = the reverse
        self.programs = {}
        self.stats = []
        self.init = None
        self.timeout_ms = timeout_ms

    def build_handle(self, ex):
        p = self.prog
        b = ex.call(p.find_impl_method('builder', 'QueuingMetricSink'), [])
        for step in (self.order if self.order in ('ch', 'hc') else 'ch'):
            if step == 'c' and self.cap_mode == 'bounded':
                b = ex.call(p.find_impl_method('with_capacity', 'QueuingMetricSinkBuilder'), [b, Int(z3.BitVec('cap', 64), 'usize')])
            if step == 'h' and self.handler:
                b = ex.call(p.find_impl_method('with_error_handler', 'QueuingMetricSinkBuilder'), [b, Native('EnvIoHandler', None, fresh_id())])
        return ex.call(p.find_impl_method('build', 'QueuingMetricSinkBuilder'), [b, Native('EnvSink', None, fresh_id())])

    def run_program(self, which):
        prog = self.prog
        P = Program(which)
        ex = Explorer(prog, timeout_ms=self.timeout_ms)
        qe.install_oracle(ex)
        me = self

        def entry(ex):
            ex.oracle, ex.loop_cut, ex.atomic_hook = False, False, None
            ex.ops, ex.regs, ex.spawned = [], [], []
            ex.out['built'] = False
            h = me.build_handle(ex)
            ex.out['built'] = True
            name_atomics(prog, h)
            if me.init is None:
                me.init = me.initial_state(ex, h)
            ex.ops = []
            ex.oracle, ex.atomic_hook = True, qe.atomic_hook
            hc = Cell(h, 'handle')
            try:
                if which == 'emit':
                    r = ex.call(prog.find_impl_method('emit', 'QueuingMetricSink', 'MetricSink'), [Ref(hc), Str((Atom('m', z3.BitVec('len_m', 64)),), 'str')])
                    if is_variant(r, 'Ok'):
                        same = z3.simplify(r.fields[0].t == z3.BitVec('len_m', 64))
                        return ('return', 'ok' if z3.is_true(same) else 'ok-wrong-len')
                    return ('return', 'err')
                if which == 'drop':
                    v = hc.v
                    hc.v = MOVED
                    ex.drop_value(v)
                    return ('return', None)
                if which == 'clone':
                    ex.call(prog.find_impl_method('clone', 'QueuingMetricSink', 'Clone'), [Ref(hc)])
                    return ('return', None)
                if which == 'worker':
                    ex.loop_cut = True
                    clo = ex.spawned[0]
                    call_closure(ex, clo, [clo, UNIT])
                    return ('return', None)
                if which in ('queued', 'submitted', 'drained', 'panics'):
                    r = ex.call(prog.find_impl_method(which, 'QueuingMetricSink'), [Ref(hc)])
                    ex.out['result'] = r
                    P.result_terms = getattr(P, 'result_terms', [])
                    P.result_terms.append(r.t)
                    return ('return', 'value#%d' % (len(P.result_terms) - 1))
                if which in ('flush', 'stats'):
                    r = ex.call(prog.find_impl_method(which, 'QueuingMetricSink', 'MetricSink'), [Ref(hc)])
                    ex.out['result'] = r
                    if which == 'stats' and isinstance(r, Agg) and ex.out.get('stats_syms') and len(r.fields) == 4:
                        same = all(isinstance(f, Int) and z3.is_true(z3.simplify(f.t == s_)) for f, s_ in zip(r.fields, ex.out['stats_syms']))
                        return ('return', 'token' if same else 'modified: ' + repr(r)[:80])
                    if which == 'flush':
                        # 'token' = the caller gets exactly what the (single) wrapped flush returned
                        wr = ex.out.get('wrapped_flush_results', [])
                        if len(wr) == 1:
                            how, ident = wr[0]
                            if how == 'ok' and is_variant(r, 'Ok'):
                                return ('return', 'token')
                            if how == 'err' and is_variant(r, 'Err') and isinstance(r.fields[0], Native) and r.fields[0].ident == ident:
                                return ('return', 'token')
                        return ('return', 'not the wrapped flush result: %s after %r' % (repr(r)[:60], wr))
                    return ('return', 'token' if isinstance(r, Native) else repr(r)[:60])
            except qe.LoopBack as lb:
                return ('loop', None)
            raise Unsupported('unknown program ' + which)

        def on_path(ex, res, status):
            if status == 'ok':
                P.add_path(list(ex.ops), res)
            elif status == 'panic':
                if not ex.out.get('built'):
                    # the builder itself panics for some capacity value (e.g. arithmetic on the argument): no sink exists on
                    # that path, so it is outside the queue properties (C20 owns panics); recorded as a bound
                    self.bounds_hit = getattr(self, 'bounds_hit', set()) | {'capacity values for which build() panics are excluded: %s' % (str(res)[:160],)}
                    return
                P.add_path(list(ex.ops), ('panic', None))
            elif status == 'cut':
                if 'try_iter batch' in str(res):
                    self.bounds_hit = getattr(self, 'bounds_hit', set()) | {'try_iter batches of more than 2 entries are not explored'}
                    return
                raise Unsupported('loop bound hit while extracting %s' % which)
            if which in ('queued',):
                P.results = getattr(P, 'results', []) + [(list(ex.ops), ex.out.get('result'), status, list(ex.pc))]

        ex.run(entry, on_path)
        self.stats.append(ex.stats)
        self.programs[which] = P
        return P

    def initial_state(self, ex, h):
        """Arc counts, capacity argument and atomics right after build()."""
        st = {'arc': {}, 'atomics': {}, 'cap_arg': None, 'spawned': len(ex.spawned)}

        def walk(v):
            if isinstance(v, ArcV):
                inner = v.cell.v
                st['arc'][inner.label] = inner.strong
                walk(inner.value.v)
            elif isinstance(v, Agg):
                for f in v.fields:
                    walk(f)
            elif isinstance(v, BoxV):
                walk(v.cell.v)
            elif isinstance(v, Closure):
                for c in v.captures:
                    walk(c)
            elif isinstance(v, Native) and v.rty == 'Atomic':
                cv = v.state.v
                st['atomics'][v.state.name] = cv.concrete()
        walk(h)
        for e in ex.events:
            if e[0] == 'bounded':
                st['cap_arg'] = e[1]
            elif e[0] == 'unbounded':
                st['cap_arg'] = 'unbounded'
        return st


# ---------------------------------------------------------------------------------------------------------
# static (single-thread) obligations on the automata
# ---------------------------------------------------------------------------------------------------------

BLOCKING = ('send_blocking', 'recv', 'lock')


def static_checks(x: Extraction, findings):
    """Properties of one program in isolation (C10 isolation, C16 handler discipline, data flow of the worker)."""
    def fail(prop, clause, detail):
        findings.append({'prop': prop, 'clause': clause, 'detail': detail, 'static': True})
    emit = x.programs['emit']
    for ops, leaf in emit.paths:
        kinds = [o['kind'] for o in ops]
        for k in kinds:
            if k in BLOCKING:
                fail('C10', 'emit-never-blocks', 'emit performs the blocking operation `%s`: %s' % (k, ' ; '.join(fmt_op(o) for o in ops)))
                findings[-1]['scenario'] = {'kind': 'queue-blocking-emit'}
            if k in ('wrapped_emit', 'wrapped_flush', 'wrapped_stats', 'handler'):
                fail('C10', 'emit-never-runs-sink', 'emit runs the wrapped sink / handler on the caller thread')
                findings[-1]['scenario'] = {'kind': 'queue-emit-calls-sink'}
            if k == 'load' or k == 'is_empty' or k == 'is_full' or k == 'chan_len':
                # result must depend on queue room only
                if k == 'load':
                    fail('C10', 'emit-depends-on-room-only', 'emit reads shared state %s' % ops[kinds.index(k)].get('loc'))
        sends = [o for o in ops if o['kind'] in ('try_send', 'send_blocking')]
        if len(sends) != 1:
            text = None
            for o in ops:
                if o['kind'] == 'branch' and o.get('cond') is not None and 'len_m' in o['cond'].sexpr():
                    sv = z3.Solver()
                    sv.add(o['cond'])
                    if sv.check() == z3.sat and sv.model().eval(z3.BitVec('len_m', 64), model_completion=True).as_long() == 0:
                        text = ''
            em = {'do': 'emit'}
            if text is not None:
                em['text'] = text
            sc = {'kind': 'queue', 'capacity': 1 if x.cap_mode == 'bounded' else None, 'handler': x.handler, 'builder_order': x.order,
                  'steps': [{'do': 'emit'}, {'do': 'wait_enter'}, {'do': 'emit'}, em, {'do': 'release', 'outcome': 'ok'}]}
            for prop in ('C08', 'C10'):
                fail(prop, 'emit-enqueues-once', 'emit path with %d channel sends (result %s): %s' % (len(sends), leaf[1], ' ; '.join(fmt_op(o) for o in ops)))
                findings[-1]['scenario'] = sc
            continue
        s = sends[0]
        if s['payload'] != ('some', (('str', 'm'),)):
            fail('C08', 'emit-enqueues-its-metric', 'emit enqueues %r instead of its metric' % (s['payload'],))
        res = leaf[1]
        if (s['out'] == 'ok') != (res == 'ok'):
            fail('C10', 'result-depends-on-room-only', 'emit returned %s although the queue %s the metric' % (res, 'accepted' if s['out'] == 'ok' else 'refused'))
            fail('C08', 'ok-iff-enqueued', 'emit returned %s although the queue %s the metric' % (res, 'accepted' if s['out'] == 'ok' else 'refused'))
        if res == 'ok-wrong-len':
            fail('C10', 'ok-carries-length', "emit's Ok value is not the metric's byte length")
    drop = x.programs['drop']
    for ops, leaf in drop.paths:
        for o in ops:
            if o['kind'] in BLOCKING:
                fail('C09', 'drop-never-blocks', 'dropping a handle performs the blocking operation `%s`' % o['kind'])
            if o['kind'] in ('wrapped_emit', 'wrapped_flush', 'wrapped_stats', 'handler'):
                # the wrapped sink is arbitrary user code (it may block on its own lock or panic): calling it on the
                # dropping thread makes the drop as slow / as panicky as the sink
                fail('C09', 'drop-calls-wrapped-sink', 'dropping a handle calls into the wrapped sink on the dropping thread: %s' % ' ; '.join(fmt_op(o2) for o2 in ops))
                findings[-1]['scenario'] = {'kind': 'queue-drop-calls-sink'}
        if leaf[0] == 'panic':
            fail('C09', 'drop-never-panics', 'dropping a handle can panic: %s' % ' ; '.join(fmt_op(o) for o in ops))
    worker = x.programs['worker']
    flagged_batch = False
    for ops, leaf in worker.paths:
        # entries taken off the queue but not yet handed over live only in the worker's locals: a panic of the wrapped sink
        # loses all of them except the one being delivered, so the worker may hold at most one
        inflight = 0
        for o in ops:
            if o['kind'] in ('recv', 'try_recv') and o['out'] == 'some':
                inflight += 1
                if inflight > 1 and not flagged_batch:
                    flagged_batch = True
                    for prop in ('C08', 'C11'):
                        fail(prop, 'one-entry-in-flight', 'the worker takes a second entry off the queue before the first was handed to the wrapped sink: %s' % ' ; '.join(fmt_op(o2) for o2 in ops[:12]))
                        # a backlog of 24 behind a busy worker (batch thresholds), then a panic on the third delivery
                        findings[-1]['scenario'] = {'kind': 'queue', 'capacity': 64 if x.cap_mode == 'bounded' else None, 'handler': x.handler, 'builder_order': x.order,
                                                    'steps': [{'do': 'emit'}, {'do': 'wait_enter'}] + [{'do': 'emit'}] * 24 +
                                                             [{'do': 'release', 'outcome': 'ok'}, {'do': 'wait_enter'}, {'do': 'release', 'outcome': 'ok'}, {'do': 'wait_enter'},
                                                              {'do': 'release', 'outcome': 'panic'}]}
            if o['kind'] == 'wrapped_emit':
                inflight = max(0, inflight - 1)
    for ops, leaf in worker.paths:
        recvd = False
        pending_err = None
        for o in ops:
            if o['kind'] == 'recv' and o['out'] == 'some':
                recvd = True
            if o['kind'] == 'wrapped_emit':
                if pending_err is not None and x.handler:
                    fail('C16', 'handler-before-next-metric', 'a second metric is processed before the handler saw the previous error')
                if not recvd or o['arg'] != (('str', 'recvd'),):
                    fail('C08', 'delivers-what-it-received', 'the wrapped sink is invoked with %r, not with the string taken from the queue' % (o['arg'],))
                pending_err = o['err'] if o['out'] == 'err' else None
                last_out = o['out']
            if o['kind'] == 'handler':
                if pending_err is None:
                    fail('C16', 'handler-only-on-error', 'the error handler is invoked without a preceding wrapped-sink error')
                elif o['err'] != pending_err:
                    fail('C16', 'handler-gets-that-error', "the handler receives an error other than the wrapped sink's")
                pending_err = None
        if pending_err is not None and x.handler:
            fail('C16', 'handler-once-per-error', 'a wrapped-sink error is not handed to the configured handler: %s' % ' ; '.join(fmt_op(o) for o in ops))
            findings[-1]['scenario'] = {'kind': 'queue', 'capacity': 2 if x.cap_mode == 'bounded' else None, 'handler': True, 'builder_order': x.order,
                                        'steps': [{'do': 'emit'}, {'do': 'wait_enter'}, {'do': 'release', 'outcome': 'err:Other'}]}
        if not x.handler and any(o['kind'] == 'handler' for o in ops):
            fail('C16', 'no-handler-configured', 'a handler is invoked although none was configured')


# ---------------------------------------------------------------------------------------------------------
# SMT product
# ---------------------------------------------------------------------------------------------------------

class Product:
    def __init__(self, x: Extraction, A, D, P, Q, producers=1, timeout_ms=120000, sampler=False, rendezvous=False):
        self.x, self.A, self.D, self.P, self.Q, self.timeout_ms = x, A, D, P, Q, timeout_ms
        self.sampler = sampler
        # capacity 0: crossbeam's zero-capacity flavour. try_send succeeds iff a receiver is parked in recv (it hands
        # the message over directly); recv first registers the receiver as parked, then waits for a hand-over;
        # is_empty() and is_full() are constantly true, len() is 0.
        self.rendezvous = rendezvous
        self.nprod = producers
        self.bounded = x.cap_mode == 'bounded'
        self.qmax = (Q if self.bounded else A) + 2
        self.build_programs()

    # ---- programs -> global edge list -------------------------------------------------------------------
    def build_programs(self):
        x = self.x
        # atomics no thread program ever loads (pure statistics, test-only flags): updating them commutes with every
        # operation of every other thread, so they are folded into the preceding step (Lipton-style reduction)
        loaded = set()
        for P in x.programs.values():
            for ops, leaf in P.paths:
                for o in ops:
                    if o['kind'] == 'load':
                        loaded.add(o['loc'])
        self.silent = set(x.init['atomics']) - loaded

        def is_silent(node):
            return node['op'] is not None and node['op'][0] in ('fetch_add', 'store') and node['op'][1] in self.silent and len(node['edges']) == 1

        def compress(nodes):
            out = []
            for n in nodes:
                edges = {}
                for outc, (dst, o) in n['edges'].items():
                    o2 = dict(o)
                    then = []
                    while is_silent(nodes[dst]):
                        (d2, so), = nodes[dst]['edges'].values()
                        then.append(so)
                        dst = d2
                    o2['then'] = then
                    edges[outc] = (dst, o2)
                out.append({'op': n['op'], 'edges': edges, 'leaf': n['leaf']})
            return out

        # producer sequencer: node 0 = boundary between actions; the first operation of an action starts it
        self.prod_nodes = [{'op': ('boundary',), 'edges': {}, 'leaf': None}]
        for act in ('emit', 'clone', 'drop'):
            P = x.programs[act]
            nodes = compress(P.nodes)
            off = len(self.prod_nodes)
            for n in nodes:
                edges = {out: (dst + off, o) for out, (dst, o) in n['edges'].items()}
                self.prod_nodes.append({'op': n['op'], 'edges': edges, 'leaf': (act, n['leaf']) if n['leaf'] is not None else None})
            root = self.prod_nodes[off]
            if root['leaf'] is not None or not root['edges']:
                raise Unsupported('action %s performs no visible operation' % act)
            for outc, (dst, o) in root['edges'].items():
                o2 = dict(o)
                o2['begin'] = act
                self.prod_nodes[0]['edges'][(act, outc)] = (dst, o2)
        self.worker_nodes = compress(x.programs['worker'].nodes)
        self.slots = ['P%d' % i for i in range(self.nprod)] + ['W%d' % i for i in range(1 + self.P)]
        if self.sampler:
            self.sampler_nodes = compress(x.programs['queued'].nodes)
            self.slots.append('S0')

    def nodes_of(self, slot):
        if slot.startswith('S'):
            return self.sampler_nodes
        return self.prod_nodes if slot.startswith('P') else self.worker_nodes

    # ---- encoding (bit-vectors: the query is bit-blasted to SAT) ------------------------------------------
    W = 8
    PW = 12               # program counters
    NONE_MARK = 0xFF      # the stop marker in the channel
    EMPTY = 0xFE          # unused channel slot / "no metric"

    def bv(self, v):
        return z3.BitVecVal(v & 0xFF, self.W)

    def encode(self):
        x, A, D = self.x, self.A, self.D
        I = self.bv
        cons = []
        cap = z3.BitVec('capacity', self.W)
        if self.rendezvous:
            cons += [cap == 0]
        elif self.bounded:
            cons += [z3.UGE(cap, 1), z3.ULE(cap, self.Q)]
        atom_names = sorted(x.init['atomics'])
        arc_labels = sorted(x.init['arc'])
        st = {}
        st['clen'] = I(0)
        st['q'] = [I(self.EMPTY)] * self.qmax
        for n in atom_names:
            v = x.init['atomics'][n]
            st['at:' + n] = z3.BoolVal(v) if isinstance(v, bool) else I(v)
        for l in arc_labels:
            st['rc:' + l] = I(x.init['arc'][l])
        st['wrapped_dropped'] = z3.BoolVal(False)
        st['double_drop'] = z3.BoolVal(False)
        st['dn'] = I(0)
        st['an'] = I(0)
        st['dl'] = [I(self.EMPTY)] * A
        st['ac'] = [I(self.EMPTY)] * A
        st['errs'] = I(0)
        st['hcalls'] = I(0)
        st['penv'] = I(0)
        st['oks'] = I(0)
        st['nh'] = I(1)
        for i_ in range(self.nprod):
            st['own:P%d' % i_] = I(1 if i_ == 0 else 0)
        st['na'] = I(0)
        st['spawn_overflow'] = z3.BoolVal(False)
        st['handed_bad'] = z3.BoolVal(False)
        self.reg_syms = {}
        for P_ in list(x.programs.values()):
            for ops, leaf in P_.paths:
                for o in ops:
                    if o.get('reg') is not None:
                        self.reg_syms[o['reg'].decl().name()] = o['reg']
        for sl in self.slots:
            for rn in self.reg_syms:
                st['reg:%s:%s' % (sl, rn)] = I(0)
            st['pc:' + sl] = z3.BitVecVal(0, self.PW)
            st['cur:' + sl] = I(self.EMPTY)
            st['mid:' + sl] = I(self.EMPTY)
            st['active:' + sl] = z3.BoolVal(sl.startswith('P') or sl == 'W0' or sl.startswith('S'))
            if sl.startswith('S'):
                st['sres_bad'] = z3.BoolVal(False)
            st['ended:' + sl] = z3.BoolVal(False)
            st['panicked:' + sl] = z3.BoolVal(False)
            if sl.startswith('W'):
                st['wait:' + sl] = z3.BoolVal(False)
        self.states = [st]
        E = []
        for sl in self.slots:
            nodes = self.nodes_of(sl)
            if len(nodes) >= (1 << self.PW) - 2:
                raise Unsupported('thread program too large for the %d-bit program counter' % self.PW)
            # only nodes reachable through edges that can ever fire
            reach, todo = {0}, [0]
            while todo:
                ni = todo.pop()
                for out, (dst, o) in nodes[ni]['edges'].items():
                    oc = out[1] if isinstance(out, tuple) else out
                    if oc == 'disconnected':
                        continue        # the worker owns both channel ends: never disconnected (stated contract)
                    if not self.bounded and oc == 'full':
                        continue
                    E.append((sl, ni, dst, o, out))
                    if dst not in reach:
                        reach.add(dst)
                        todo.append(dst)
            if self.rendezvous and sl.startswith('W'):
                for ni in sorted(reach):
                    if nodes[ni]['op'] is not None and nodes[ni]['op'][0] == 'recv':
                        E.append((sl, ni, ni, {'kind': 'recv_register', 'out': 'parked'}, 'parked'))
        self.E = E
        FW = max(8, (len(E) + 2).bit_length() + 1)
        self.FW = FW
        STUTTER = (1 << FW) - 1
        fire = [z3.BitVec('fire_%d' % t, FW) for t in range(D)]
        nd = [z3.BitVec('nd_%d' % t, 2) for t in range(D)]
        self.fire, self.nd, self.STUTTER = fire, nd, STUTTER
        terminal = []
        for t in range(D):
            cur = self.states[-1]
            g_struct, g_fire, updates = [], [], []
            for j, (sl, src, dst, o, out) in enumerate(E):
                g, choice, upd = self.edge_semantics(cur, cap, sl, src, dst, o, out, nd[t])
                base = z3.And(cur['active:' + sl], z3.Not(cur['ended:' + sl]), cur['pc:' + sl] == src, g)
                g_struct.append(base)
                g_fire.append(z3.And(base, choice))
                updates.append(upd)
            any_enabled = z3.Or(*g_struct)
            cons.append(z3.Or(fire[t] == STUTTER, z3.ULT(fire[t], len(E))))
            cons.append(z3.Implies(fire[t] == STUTTER, z3.Not(any_enabled)))
            for j, g in enumerate(g_fire):
                cons.append(z3.Implies(fire[t] == j, g))
            mat = {}
            for k, v in cur.items():
                if isinstance(v, list):
                    mat[k] = []
                    for idx in range(len(v)):
                        e = v[idx]
                        for j, upd in enumerate(updates):
                            if k in upd and upd[k][idx] is not None:
                                e = z3.If(fire[t] == j, upd[k][idx], e)
                        var = z3.BitVec('%s_%d_%d' % (k, idx, t + 1), self.W)
                        cons.append(var == e)
                        mat[k].append(var)
                else:
                    e = v
                    for j, upd in enumerate(updates):
                        if k in upd:
                            e = z3.If(fire[t] == j, upd[k], e)
                    var = z3.Bool('%s_%d' % (k, t + 1)) if z3.is_bool(v) else z3.BitVec('%s_%d' % (k, t + 1), v.size())
                    cons.append(var == e)
                    mat[k] = var
            terminal.append(fire[t] == STUTTER)
            self.states.append(mat)
        # ---- partial-order reduction: of two adjacent independent steps by different threads only the order
        # "lower thread index first" is kept (every trace has an equivalent one of that form; all assertions read
        # only objects in the steps' footprints, which make dependent steps conflict)
        objs = {}

        def bit(name):
            if name not in objs:
                objs[name] = 1 << len(objs)
            return objs[name]

        def footprint(sl, o):
            k = o['kind']
            r = w = 0
            if k in ('try_send', 'send_blocking', 'recv', 'recv_register', 'try_recv'):
                w |= bit('chan')
                if k in ('try_send', 'send_blocking') and o['payload'][0] == 'some':
                    w |= bit('log')          # accepted sequence
            elif k in ('is_empty', 'is_full', 'chan_len'):
                r |= bit('chan')
            elif k == 'load':
                r |= bit('at:' + o['loc'])
            elif k in ('store', 'fetch_add'):
                w |= bit('at:' + o['loc'])
            elif k in ('arc_inc', 'arc_dec', 'arc_count', 'arc_upgrade'):
                w |= bit('rc:' + o['label'])
            elif k in ('wrapped_emit', 'handler', 'wrapped_drop', 'wrapped_flush', 'wrapped_stats'):
                w |= bit('log') | bit('sink')
            elif k == 'spawn':
                w |= bit('threads')
            for so in o.get('then', []):
                w |= bit('at:' + so['loc'])
            if o.get('begin'):
                w |= bit('script')
            if sl.startswith('W'):
                r |= bit('threads')
            return r, w
        fps = [footprint(sl, o) for (sl, src, dst, o, out) in E]
        nb = max(1, len(objs))
        tix = {sl: i for i, sl in enumerate(self.slots)}
        TW = max(2, len(self.slots).bit_length() + 1)
        prev = None
        for t in range(D):
            rd = z3.BitVecVal(0, nb)
            wr = z3.BitVecVal(0, nb)
            th = z3.BitVecVal(0, TW)
            for j, (sl, src, dst, o, out) in enumerate(E):
                hit = fire[t] == j
                rd = z3.If(hit, z3.BitVecVal(fps[j][0] | fps[j][1], nb), rd)
                wr = z3.If(hit, z3.BitVecVal(fps[j][1], nb), wr)
                th = z3.If(hit, z3.BitVecVal(tix[sl], TW), th)
            rv, wv, tv = z3.BitVec('fp_r_%d' % t, nb), z3.BitVec('fp_w_%d' % t, nb), z3.BitVec('fp_t_%d' % t, TW)
            cons += [rv == rd, wv == wr, tv == th]
            if prev is not None:
                prv, pwv, ptv = prev
                indep = z3.And((pwv & rv) == 0, (prv & wv) == 0)
                cons.append(z3.Not(z3.And(fire[t] != STUTTER, fire[t - 1] != STUTTER, z3.ULT(tv, ptv), indep)))
                cons.append(z3.Implies(fire[t - 1] == STUTTER, fire[t] == STUTTER))
            prev = (rv, wv, tv)
        self.cons = cons
        self.cap = cap
        self.terminal = terminal
        return cons

    def edge_semantics(self, cur, cap, sl, src, dst, o, out, ndv):
        """(structural guard, environment-choice guard, updates) of one automaton edge."""
        I = self.bv
        A = self.A
        k = o['kind']
        g = z3.BoolVal(True)
        choice = z3.BoolVal(True)
        upd = {}
        nodes = self.nodes_of(sl)
        leaf = nodes[dst]['leaf'] if nodes[dst]['op'] is None else None
        newpc = dst
        is_prod = sl.startswith('P')
        nh_plus = False
        if leaf is not None:
            if is_prod:
                act, info = leaf
                newpc = 0
                if act == 'emit' and info and info[1] == 'ok':
                    upd['oks'] = cur['oks'] + 1
                if act == 'clone':
                    nh_plus = True
            else:
                if leaf[0] == 'loop':
                    newpc = 0
                else:
                    upd['ended:' + sl] = z3.BoolVal(True)
                    if leaf[0] == 'panic':
                        upd['panicked:' + sl] = z3.BoolVal(True)
                    if sl.startswith('S') and leaf[0] == 'return' and isinstance(leaf[1], str) and leaf[1].startswith('value#'):
                        from .smt import _consts
                        term = self.x.programs['queued'].result_terms[int(leaf[1].split('#')[1])]
                        subs = []
                        for c in _consts(term):
                            nm = c.decl().name()
                            if nm in self.reg_syms:
                                subs.append((c, z3.ZeroExt(c.size() - self.W, cur['reg:%s:%s' % (sl, nm)])))
                        tv = z3.substitute(term, *subs) if subs else term
                        subn = [n for n in self.x.init['atomics'] if n.endswith('submitted')][0]
                        upd['sres_bad'] = z3.UGT(tv, z3.ZeroExt(tv.size() - self.W, cur['at:' + subn]))
        upd['pc:' + sl] = z3.BitVecVal(newpc, self.PW)
        qn = self.qmax
        eff_cap = cap if self.bounded else I(qn)
        gbegin = z3.BoolVal(True)
        mid = cur['mid:' + sl]
        if o.get('begin'):
            act = o['begin']
            gbegin = z3.And(z3.ULT(cur['na'], A), z3.UGE(cur['own:' + sl], 1))
            upd['na'] = cur['na'] + 1
            if act == 'emit':
                upd['mid:' + sl] = cur['na']
                mid = cur['na']
            if act == 'drop':
                upd['nh'] = cur['nh'] - 1
                upd['own:' + sl] = cur['own:' + sl] - 1
        if isinstance(out, tuple):
            out = out[1]

        def push(entry):
            upd['q'] = [z3.If(cur['clen'] == i, entry, cur['q'][i]) for i in range(qn)]
            upd['clen'] = cur['clen'] + 1

        def pop():
            upd['q'] = [cur['q'][i + 1] if i + 1 < qn else I(self.EMPTY) for i in range(qn)]
            upd['clen'] = cur['clen'] - 1

        is_id = lambda e: z3.ULT(e, 0xF0)
        wslots = [w for w in self.slots if w.startswith('W')]
        if self.rendezvous and k == 'send_blocking':
            raise Unsupported('blocking send on a zero-capacity channel has no model')
        if self.rendezvous and k == 'recv_register':
            g = z3.And(z3.Not(cur['wait:' + sl]), cur['clen'] == 0)
            upd['wait:' + sl] = z3.BoolVal(True)
        elif self.rendezvous and k == 'try_send':
            entry = mid if o['payload'][0] == 'some' else I(self.NONE_MARK)
            parked = z3.And(cur['clen'] == 0, z3.Or(*[z3.And(cur['wait:' + w], cur['active:' + w], z3.Not(cur['ended:' + w])) for w in wslots]))
            if out == 'ok':
                g = parked
                push(entry)
                for w in wslots:
                    upd['wait:' + w] = z3.BoolVal(False)
                if o['payload'][0] == 'some':
                    upd['ac'] = [z3.If(cur['an'] == i, entry, cur['ac'][i]) for i in range(A)]
                    upd['an'] = cur['an'] + 1
            elif out == 'full':
                g = z3.Not(parked)
            else:
                g = z3.BoolVal(False)
        elif self.rendezvous and k in ('is_empty', 'is_full'):
            g = z3.BoolVal(out == 'true')
        elif self.rendezvous and k == 'chan_len':
            upd['reg:%s:%s' % (sl, o['reg'].decl().name())] = I(0)
        elif k in ('try_send', 'send_blocking'):
            entry = mid if o['payload'][0] == 'some' else I(self.NONE_MARK)
            room = z3.ULT(cur['clen'], eff_cap)
            if k == 'send_blocking' or out == 'ok':
                g = z3.And(room, z3.ULT(cur['clen'], qn))
                push(entry)
                if o['payload'][0] == 'some':
                    upd['ac'] = [z3.If(cur['an'] == i, entry, cur['ac'][i]) for i in range(A)]
                    upd['an'] = cur['an'] + 1
            elif out == 'full':
                g = z3.And(z3.Not(room), z3.BoolVal(self.bounded))
            else:
                g = z3.BoolVal(False)
        elif k == 'try_recv':
            if self.rendezvous:
                g = z3.BoolVal(out == 'empty')      # no sender ever blocks, so there is never anything to take
            elif out == 'some':
                g = z3.And(z3.UGT(cur['clen'], 0), is_id(cur['q'][0]))
                upd['cur:' + sl] = cur['q'][0]
                pop()
            elif out == 'none':
                g = z3.And(z3.UGT(cur['clen'], 0), cur['q'][0] == self.NONE_MARK)
                pop()
            else:
                g = cur['clen'] == 0
        elif k == 'recv':
            if out == 'some':
                g = z3.And(z3.UGT(cur['clen'], 0), is_id(cur['q'][0]))
                upd['cur:' + sl] = cur['q'][0]
                pop()
            elif out == 'none':
                g = z3.And(z3.UGT(cur['clen'], 0), cur['q'][0] == self.NONE_MARK)
                pop()
            else:
                g = z3.BoolVal(False)
        elif k == 'is_empty':
            g = (cur['clen'] == 0) if out == 'true' else z3.UGT(cur['clen'], 0)
        elif k == 'is_full':
            full = z3.And(z3.BoolVal(self.bounded), z3.UGE(cur['clen'], eff_cap))
            g = full if out == 'true' else z3.Not(full)
        elif k == 'load':
            v = cur['at:' + o['loc']]
            if out in ('true', 'false'):
                g = v if out == 'true' else z3.Not(v)
        elif k == 'store':
            val = o['value']
            if val is None:
                raise Unsupported('store of a non-constant value to %s in a thread program' % o['loc'])
            upd['at:' + o['loc']] = z3.BoolVal(val) if isinstance(val, bool) else I(val)
        elif k == 'fetch_add':
            if o['value'] is None:
                raise Unsupported('fetch_add of a non-constant value')
            upd['at:' + o['loc']] = cur['at:' + o['loc']] + o['value']
        elif k == 'arc_inc':
            upd['rc:' + o['label']] = cur['rc:' + o['label']] + 1
        elif k == 'arc_dec':
            rc = cur['rc:' + o['label']]
            g = (rc == 1) if out == 'zero' else z3.UGT(rc, 1)
            upd['rc:' + o['label']] = rc - 1
        elif k == 'arc_upgrade':
            rc = cur['rc:' + o['label']]
            if out == 'some':
                g = z3.UGE(rc, 1)
                upd['rc:' + o['label']] = rc + 1
            else:
                g = rc == 0
        elif k == 'spawn':
            ws = [w for w in self.slots if w.startswith('W')]
            chosen = z3.BoolVal(False)
            for w in ws:
                can = z3.And(z3.Not(cur['active:' + w]), z3.Not(chosen))
                upd['active:' + w] = z3.Or(cur['active:' + w], can)
                chosen = z3.Or(chosen, can)
            upd['spawn_overflow'] = z3.Or(cur['spawn_overflow'], z3.Not(chosen))
        elif k == 'wrapped_emit':
            idx = {'ok': 0, 'err': 1, 'panic': 2}[out]
            choice = ndv == idx
            if out == 'panic':
                g = z3.ULT(cur['penv'], self.P) if self.P > 0 else z3.BoolVal(False)
                upd['penv'] = cur['penv'] + 1
            if out == 'err':
                upd['errs'] = cur['errs'] + 1
            c = cur['cur:' + sl]
            upd['dl'] = [z3.If(cur['dn'] == i, c, cur['dl'][i]) for i in range(A)]
            upd['dn'] = cur['dn'] + 1
            # C15: while the wrapped sink (user code, may take arbitrarily long) holds a metric, the library has nothing
            # pending on this thread: the drained counter must already include the metric being handed over
            drn = [n for n in self.x.init['atomics'] if n.endswith('drained')]
            if drn:
                upd['handed_bad'] = z3.Or(cur['handed_bad'], z3.And(z3.UGE(cur['nh'], 1), cur['at:' + drn[0]] != cur['dn'] + 1))   # observable only through a live handle
        elif k == 'handler':
            upd['hcalls'] = cur['hcalls'] + 1
        elif k == 'wrapped_drop':
            upd['double_drop'] = z3.Or(cur['double_drop'], cur['wrapped_dropped'])
            upd['wrapped_dropped'] = z3.BoolVal(True)
        elif k in ('wrapped_flush', 'wrapped_stats'):
            pass
        elif k == 'chan_len':
            upd['reg:%s:%s' % (sl, o['reg'].decl().name())] = cur['clen']
        elif k == 'arc_count':
            upd['reg:%s:%s' % (sl, o['reg'].decl().name())] = cur['rc:' + o['label']]
        elif k == 'branch':
            cond = o['cond']
            subs = []
            free_env = False
            from .smt import _consts
            for c in _consts(cond):
                nm = c.decl().name()
                if nm in self.reg_syms:
                    v8 = cur['reg:%s:%s' % (sl, nm)]
                    subs.append((c, z3.ZeroExt(c.size() - self.W, v8) if c.size() > self.W else v8))
                elif nm == 'cap' and (self.bounded or self.rendezvous):
                    # the capacity the user configured (the builder's argument): this configuration's capacity
                    subs.append((c, z3.ZeroExt(c.size() - self.W, cap) if c.size() > self.W else cap))
                else:
                    free_env = True
            if free_env:
                # depends on environment data (e.g. the kind of an io::Error): any outcome is possible
                choice = z3.BoolVal(True)
            else:
                g = z3.substitute(cond, *subs) if subs else cond
        else:
            raise Unsupported('operation `%s` in a thread program has no model' % k)
        if k == 'load' and o.get('reg') is not None:
            upd['reg:%s:%s' % (sl, o['reg'].decl().name())] = cur['at:' + o['loc']]
        for so in o.get('then', []):
            key = 'at:' + so['loc']
            base = upd.get(key, cur[key])
            if so['kind'] == 'fetch_add':
                upd[key] = base + so['value']
            else:
                upd[key] = z3.BoolVal(so['value']) if isinstance(so['value'], bool) else I(so['value'])
        if nh_plus:
            upd['nh'] = upd.get('nh', cur['nh']) + 1
            if self.nprod == 1:
                upd['own:' + sl] = upd.get('own:' + sl, cur['own:' + sl]) + 1
            else:
                # the new handle stays with the cloning thread or is handed to the other producer (free choice)
                other = [p_ for p_ in self.slots if p_.startswith('P') and p_ != sl][0]
                give = z3.Extract(0, 0, ndv) == 1
                upd['own:' + sl] = z3.If(give, upd.get('own:' + sl, cur['own:' + sl]), upd.get('own:' + sl, cur['own:' + sl]) + 1)
                upd['own:' + other] = z3.If(give, cur['own:' + other] + 1, cur['own:' + other])
        return z3.And(gbegin, g), choice, upd

    # ---- properties -------------------------------------------------------------------------------------
    def violations(self):
        """{(prop, clause): z3 Bool over the trace} - each is true iff the trace violates that clause."""
        A, D = self.A, self.D
        out = {}
        S = self.states
        x = self.x

        def seq_prefix_bad(stt):
            return z3.Or(*[z3.And(z3.UGT(stt['dn'], i), z3.Or(z3.ULE(stt['an'], i), stt['dl'][i] != stt['ac'][i])) for i in range(A)])

        any_t = lambda f: z3.Or(*[f(t) for t in range(D + 1)])
        at_term = lambda f: z3.Or(*[z3.And(self.terminal[t], f(S[t])) for t in range(D)])
        workers = [w for w in self.slots if w.startswith('W')]
        worker_alive = lambda stt: z3.Or(*[z3.And(stt['active:' + w], z3.Not(stt['ended:' + w])) for w in workers])
        out[('C08', 'in-order-exactly-once')] = any_t(lambda t: seq_prefix_bad(S[t]))
        out[('C08', 'accepted-is-delivered')] = at_term(lambda stt: stt['dn'] != stt['an'])
        out[('C11', 'accepted-is-delivered-despite-panics')] = at_term(lambda stt: z3.And(z3.UGT(stt['penv'], 0), stt['dn'] != stt['an']))
        pan = [n for n in x.init['atomics'] if n.endswith('panics')]
        if pan:
            out[('C11', 'panic-count')] = at_term(lambda stt: stt['at:' + pan[0]] != stt['penv'])
        out[('C11', 'worker-alive-while-handles-live')] = at_term(lambda stt: z3.And(z3.UGE(stt['nh'], 1), z3.UGT(stt['penv'], 0), z3.Not(worker_alive(stt))))
        out[('C08', 'worker-alive-while-handles-live')] = at_term(lambda stt: z3.And(z3.UGE(stt['nh'], 1), z3.Not(worker_alive(stt))))
        all_dropped = lambda stt: z3.And(stt['nh'] == 0, *[stt['pc:' + p] == 0 for p in self.slots if p.startswith('P')])
        out[('C09', 'drained-after-last-drop')] = at_term(lambda stt: z3.And(all_dropped(stt), stt['dn'] != stt['an']))
        out[('C09', 'worker-terminates')] = at_term(lambda stt: z3.And(all_dropped(stt), worker_alive(stt)))
        out[('C09', 'wrapped-sink-released')] = at_term(lambda stt: z3.And(all_dropped(stt), z3.Not(stt['wrapped_dropped'])))
        out[('C09', 'released-once')] = any_t(lambda t: S[t]['double_drop'])
        out[('C09', 'not-released-while-in-use')] = any_t(lambda t: z3.And(S[t]['wrapped_dropped'], z3.UGE(S[t]['nh'], 1)))
        sub = [n for n in x.init['atomics'] if n.endswith('submitted')]
        dr = [n for n in x.init['atomics'] if n.endswith('drained')]
        if sub and dr:
            # the counters are observable only through a live handle
            out[('C15', 'submitted-counts-ok-emits')] = at_term(lambda stt: z3.And(z3.UGE(stt['nh'], 1), stt['at:' + sub[0]] != stt['oks']))
            out[('C15', 'drained-counts-deliveries')] = at_term(lambda stt: z3.And(z3.UGE(stt['nh'], 1), stt['at:' + dr[0]] != stt['dn']))
            out[('C15', 'drained-counts-handed')] = any_t(lambda t: S[t]['handed_bad'])
            out[('C15', 'ok-emits-are-accepted')] = at_term(lambda stt: z3.And(z3.UGE(stt['nh'], 1), stt['oks'] != stt['an']))
        if x.handler:
            out[('C16', 'handler-once-per-error')] = at_term(lambda stt: stt['hcalls'] != stt['errs'])
        else:
            out[('C16', 'no-handler-configured')] = any_t(lambda t: z3.UGT(S[t]['hcalls'], 0))
        if not self.rendezvous:
            out[('C10', 'capacity-never-exceeded')] = any_t(lambda t: z3.And(z3.BoolVal(self.bounded), z3.UGT(S[t]['clen'], self.cap)))
        if self.sampler:
            out = {('C15', 'queued-never-panics'): any_t(lambda t: S[t]['panicked:S0']),
                   ('C15', 'queued-in-range'): any_t(lambda t: S[t]['sres_bad'])}
        return out

    def marker_lost_before_park(self):
        """Capacity 0 only: the stop marker's try_send fails at a moment when a live worker has passed its stop check
        and stands at recv() without having parked yet (nothing handed over). This is the history of the known
        finding 'cap0-marker-lost-before-park'; every other way of violating a clause is outside it."""
        S = self.states
        hits = []
        wslots = [w for w in self.slots if w.startswith('W')]
        recv_nodes = [i for i, n in enumerate(self.worker_nodes) if n['op'] is not None and n['op'][0] == 'recv']
        for t in range(self.D):
            fired = [self.fire[t] == j for j, (sl, src, dst, o, out) in enumerate(self.E)
                     if o['kind'] == 'try_send' and o['payload'][0] == 'none' and (out[1] if isinstance(out, tuple) else out) == 'full']
            if not fired:
                continue
            about_to_park = z3.Or(*[z3.And(S[t]['active:' + w], z3.Not(S[t]['ended:' + w]), z3.Not(S[t]['wait:' + w]), S[t]['clen'] == 0,
                                           z3.Or(*[S[t]['pc:' + w] == n for n in recv_nodes])) for w in wslots])
            hits.append(z3.And(z3.Or(*fired), about_to_park))
        return z3.Or(*hits) if hits else z3.BoolVal(False)

    def check(self, cond, extra=()):
        """One non-incremental SAT query (bit-blasting) over the whole unrolling."""
        s = z3.SolverFor('QF_BV')
        s.set('timeout', self.timeout_ms)
        for c in self.cons:
            s.add(c)
        s.add(cond)
        for e in extra:
            s.add(e)
        t0 = time.time()
        r = s.check()
        m = s.model() if r == z3.sat else None
        return ('sat' if r == z3.sat else 'unsat' if r == z3.unsat else 'unknown'), m, time.time() - t0

    def trace_of(self, m):
        """Human-readable + replayable trace from a model."""
        steps = []
        for t in range(self.D):
            j = m.eval(self.fire[t], model_completion=True).as_long()
            if j == self.STUTTER or j >= len(self.E):
                break
            sl, src, dst, o, out = self.E[j]
            oc = out[1] if isinstance(out, tuple) else out
            steps.append({'t': t, 'thread': sl, 'op': fmt_op(o), 'kind': o['kind'], 'out': oc, 'begin': o.get('begin'),
                          'cond': o.get('cond'), 'kind_term': o.get('kind_term'),
                          'payload': o.get('payload', [None])[0] if o.get('payload') else None})
        capv = m.eval(self.cap, model_completion=True).as_long() if self.bounded else None
        return steps, capv


def scenario_from_trace(steps, capv, handler):
    """Coarsen a model trace to driver steps for the native replay (gated wrapped sink)."""
    from .executor import IO_ERROR_KINDS
    out = []
    # constraints on error kinds gathered from environment-dependent branches, per worker iteration
    pending_kind = None
    pending_ok = None
    conds = []
    accepted_idx = []      # positions (in `out`) of the emits whose metric entered the queue, in queue order
    nrecv = 0
    cur_emit = None
    unwind_held = None
    for st in steps:
        if unwind_held is not None and st['thread'] == unwind_held[0]:
            # the panicking worker moves again: whatever the producers did since then happened in mid-unwind
            if unwind_held[2]:
                out[unwind_held[1]]['hold'] = True
                out.append({'do': 'release_unwind'})
            unwind_held = None
        if unwind_held is not None and st['thread'].startswith('P'):
            unwind_held[2] = True
        if st['begin']:
            out.append({'do': st['begin']})
        if st['kind'] in ('try_send', 'send_blocking') and st['payload'] == 'some' and st['out'] == 'ok':
            for i in range(len(out) - 1, -1, -1):
                if out[i]['do'] == 'emit':
                    accepted_idx.append(i)
                    break
        if capv == 0 and st['kind'] == 'load' and st['thread'].startswith('W') and st['out'] == 'false' and 'stop' in st['op']:
            # rendezvous replays: the worker passed its stop check - let it get to the scheduling point before the next step
            out.append({'do': 'wait_at_point'})
        if st['kind'] == 'recv_register':
            out.append({'do': 'park'})
        if st['kind'] == 'recv' and st['out'] == 'some':
            cur_emit = accepted_idx[nrecv] if nrecv < len(accepted_idx) else None
            nrecv += 1
        if st['kind'] == 'branch' and st.get('cond') is not None and cur_emit is not None and 'len_recvd' in st['cond'].sexpr():
            sv = z3.Solver()
            sv.add(st['cond'])
            if sv.check() == z3.sat:
                ln = sv.model().eval(z3.BitVec('len_recvd', 64), model_completion=True).as_long()
                if ln == 0:
                    out[cur_emit]['text'] = ''
        if st['kind'] == 'recv' and st['out'] == 'some':
            out.append({'do': 'wait_enter'})
        if st['kind'] == 'wrapped_emit':
            out.append({'do': 'release', 'outcome': 'ok' if st['out'] == 'ok' else ('panic' if st['out'] == 'panic' else 'err:Other')})
            pending_kind = (len(out) - 1, st.get('kind_term')) if st['out'] == 'err' else None
            pending_ok = len(out) - 1 if st['out'] == 'ok' else None
            # whatever the producers do before this worker's next operation happens while it is still inside the sink
            # (a panic is held in mid-unwind, a normal return just before returning)
            unwind_held = [st['thread'], len(out) - 1, False]
            conds = []
        if st['kind'] == 'branch' and pending_ok is not None and st.get('cond') is not None and 'wrapped_ret' in st['cond'].sexpr():
            # the code looks at the count the wrapped sink returned: realise a value that takes this branch
            from .smt import _consts
            sv = z3.Solver()
            sv.add(st['cond'])
            rv = [c for c in _consts(st['cond']) if c.decl().name().startswith('wrapped_ret')]
            if rv and sv.check() == z3.sat:
                val = sv.model().eval(rv[0], model_completion=True).as_long()
                s2 = z3.Solver()
                s2.add(st['cond'], z3.ULT(rv[0], 64))
                if s2.check() == z3.sat:
                    val = s2.model().eval(rv[0], model_completion=True).as_long()
                out[pending_ok]['outcome'] = 'ok:%d' % val
        if st['kind'] == 'branch' and pending_kind is not None and st.get('cond') is not None and pending_kind[1] is not None:
            conds.append(st['cond'])
            s = z3.Solver()
            for c in conds:
                s.add(c)
            if s.check() == z3.sat:
                kv = s.model().eval(pending_kind[1], model_completion=True).as_long()
                inv = {v: k for k, v in IO_ERROR_KINDS.items()}
                out[pending_kind[0]]['outcome'] = 'err:' + inv.get(kv, 'Other')
    if unwind_held is not None and unwind_held[2]:
        out[unwind_held[1]]['hold'] = True
        out.append({'do': 'release_unwind'})
    return {'kind': 'queue', 'capacity': capv, 'handler': handler, 'steps': out}


def stats_delegation(ctx, prog):
    """C14 / C06 through the queuing wrapper: stats() and flush() are exactly the wrapped sink's (static obligations on
    the extracted programs; used by the C14 check)."""
    for handler in (False, True):
        x = Extraction(prog, 'bounded', handler)
        for w, prop in (('stats', 'C14'), ('flush', 'C06')):
            P = x.run_program(w)
            ctx.paths += len(P.paths)
            for ops, leaf in P.paths:
                ctx.obligations += 1
                kinds = [o['kind'] for o in ops]
                if kinds != ['wrapped_' + w] or leaf[1] != 'token':
                    ctx.findings.append({'prop': prop, 'clause': 'queuing-%s-delegates' % w, 'pc': [], 'neg': None,
                                         'detail': "%s() on the queuing sink (handler configured: %s) is not exactly the wrapped sink's %s(): %s -> %r" % (w, handler, w, [fmt_op(o) for o in ops], leaf),
                                         'scenario': {'kind': 'queue-stats', 'handler': handler} if w == 'stats' else None})
        ctx.stats += x.stats
        ctx.vacuity['queuing-delegation-handler-%s' % handler] = {k: len(v.paths) for k, v in x.programs.items()}
