"""Symbolic-schedule encoding for straight-line programs over atomics (SC interleaving semantics).

Each thread is a list of ops extracted from the MIR by executing the function with an `atomic_hook` that answers
every load / RMW with a fresh register and records what is stored as a term over those registers. The
interleaving is an SMT variable `sched[t]` (which thread moves at step t); the query asks for ANY schedule and
any inputs violating the final assertion.
"""
import z3

from .values import Int, Bool, UNIT
from .mirparse import Unsupported


class Op:
    def __init__(self, kind, loc, reg=None, new=None, bits=64, order=None, ret=None):
        self.kind, self.loc, self.reg, self.new, self.bits, self.order, self.ret = kind, loc, reg, new, bits, order, ret

    def __repr__(self):
        return '%s(%s)' % (self.kind, self.loc)


def extract_ops(ex, run, loc_of):
    """Run `run()` under an atomic hook; returns (ops, result). `loc_of(native atomic)` names the location."""
    ops = []

    def hook(ex_, kind, a, operand, order):
        loc = loc_of(a)
        cur = a.state.v
        bits = cur.bits if isinstance(cur, Int) else 1
        reg = ex_.fresh('reg_%s_%s' % (kind, loc), bits if bits > 1 else 'bool')
        old = Int(reg, cur.ty) if isinstance(cur, Int) else Bool(reg)
        if kind == 'load':
            ops.append(Op('load', loc, reg, None, bits, order))
            return old
        if kind == 'store':
            ops.append(Op('store', loc, None, operand.t, bits, order))
            return UNIT
        if kind == 'fetch_add':
            ops.append(Op('rmw', loc, reg, reg + operand.t, bits, order))
            return old
        raise Unsupported('atomic op %s in a schedule program' % kind)

    ex.atomic_hook = hook
    try:
        res = run()
    finally:
        ex.atomic_hook = None
    return ops, res


def interleave(threads, init, final_assert, extra=(), timeout_ms=60000):
    """threads: [[Op]]; init: {loc: z3 term}; final_assert(mem: {loc: term}) -> z3 Bool that must hold.
    Returns ('unsat', None) when no schedule violates it, ('sat', model_info) otherwise. Pure bit-vector encoding."""
    n = len(threads)
    T = sum(len(t) for t in threads)
    SW = max(2, n.bit_length() + 1)
    PW = max(2, (max(len(t) for t in threads) + 1).bit_length() + 1)
    s = z3.SolverFor('QF_BV')
    s.set('timeout', timeout_ms)
    for e in extra:
        s.add(e)
    sched = [z3.BitVec('sched_%d' % t, SW) for t in range(T)]
    pcs = [[z3.BitVecVal(0, PW)] for _ in range(n)]
    mem = {loc: v for loc, v in init.items()}
    for t in range(T):
        s.add(z3.ULT(sched[t], n))
        newmem = dict(mem)
        for i, prog in enumerate(threads):
            here = sched[t] == i
            s.add(z3.Implies(here, z3.ULT(pcs[i][-1], len(prog))))
            for k, op in enumerate(prog):
                act = z3.And(here, pcs[i][-1] == k)
                if op.reg is not None:
                    s.add(z3.Implies(act, op.reg == mem[op.loc]))
                if op.new is not None:
                    newmem[op.loc] = z3.If(act, op.new, newmem[op.loc])
            nxt = z3.BitVec('pc_%d_%d' % (i, t + 1), PW)
            s.add(nxt == z3.If(here, pcs[i][-1] + 1, pcs[i][-1]))
            pcs[i].append(nxt)
        named = {}
        for loc, v in newmem.items():
            var = z3.BitVec('mem_%s_%d' % (loc, t + 1), v.size())
            s.add(var == v)
            named[loc] = var
        mem = named
    for i, prog in enumerate(threads):
        s.add(pcs[i][-1] == len(prog))
    s.add(z3.Not(final_assert(mem)))
    r = s.check()
    if r == z3.unsat:
        return 'unsat', None
    if r == z3.sat:
        m = s.model()
        return 'sat', {'schedule': [m.eval(x, model_completion=True).as_long() for x in sched], 'model': m}
    return 'unknown', None


def reachable(threads, init, extra=(), timeout_ms=20000):
    """Vacuity twin: some complete schedule exists."""
    return interleave(threads, init, lambda mem: z3.BoolVal(False), extra, timeout_ms)[0] == 'sat'
