"""C02: numeric values and durations reach the wire without loss.

K (Kani / CBMC on the REAL conversion code, full ranges) decides the kernels: sign/zero extension, bit-identical
floats, Duration -> ms / ns with the u64 overflow boundary, packed lists of 2. M (MIR executor) decides that on
every call path cadence hands core's Display exactly that number and publishes the text unmodified (same runs as C01)."""
import json
import os
import re
import shutil
import subprocess
import threading
import time

from . import dump, check_client
from .mirparse import Unsupported

VERIF = dump.VERIF


def run_kani(out, result):
    t0 = time.time()
    try:
        src = dump.copy_repo()
        sd = dump.scratch_dir()
        crate = os.path.join(sd, 'kani')
        if not os.path.exists(crate):
            shutil.copytree(os.path.join(VERIF, 'kani'), crate, ignore=shutil.ignore_patterns('target'))
            toml = open(os.path.join(crate, 'Cargo.toml')).read().replace('/repo/cadence"', os.path.join(src, 'cadence') + '"')
            open(os.path.join(crate, 'Cargo.toml'), 'w').write(toml)
        env = dict(os.environ, CARGO_NET_OFFLINE='true')
        cmd = ['cargo', 'kani', '--target-dir', os.path.join(sd, 'target-kani'), '--output-format', 'terse']
        if out.tier != 'thorough':
            # the 2-element packed histogram harness needs ~2 min: thorough tier only
            for h in ('counter_values', 'scalar_u64_and_set_values', 'float_values_bit_identical', 'timer_duration_full_range',
                      'histogram_duration_full_range', 'timer_packed_durations_len2'):
                cmd += ['--harness', h]
        r = subprocess.run(cmd, cwd=crate, env=env, capture_output=True, text=True, timeout=3000 if out.tier == 'thorough' else 1500)
        txt = r.stdout + r.stderr
        harnesses = {}
        cur = None
        for line in txt.split('\n'):
            m = re.match(r'Checking harness (\S+?)\.\.\.', line)
            if m:
                cur = m.group(1)
                harnesses[cur] = {'result': None, 'time_s': None, 'covers_unsatisfied': 0}
            elif cur and line.startswith('VERIFICATION:-'):
                harnesses[cur]['result'] = line.split('- ')[1].strip()
            elif cur and line.startswith('Verification Time:'):
                harnesses[cur]['time_s'] = float(line.split(':')[1].strip().rstrip('s'))
            elif cur and re.search(r'cover.*: (UNSATISFIABLE|UNREACHABLE)', line):
                harnesses[cur]['covers_unsatisfied'] += 1
        result['harnesses'] = harnesses
        result['ok'] = bool(harnesses) and all(h['result'] == 'SUCCESSFUL' for h in harnesses.values())
        result['failed'] = [k for k, h in harnesses.items() if h['result'] != 'SUCCESSFUL']
        if not harnesses:
            result['error'] = 'no harness was run: ' + txt[-800:]
        if 'Status: ERROR' in txt or 'unwinding assertion' in txt and 'FAILURE' in txt:
            result['error'] = 'CBMC reported an error / unwinding failure'
    except subprocess.TimeoutExpired:
        result['error'] = 'kani timed out'
    except Exception as e:
        result['error'] = 'kani could not be run: %r' % (e,)
    result['wall_s'] = round(time.time() - t0, 1)


def run(out, replay_path=None):
    if replay_path:
        return check_client.run(out, replay_path)
    kres = {}
    th = threading.Thread(target=run_kani, args=(out, kres))
    th.start()
    check_client.run_family(out, ('C02',))
    th.join()
    cov = out.evidence.setdefault('coverage', {})
    cov['kani'] = kres
    cov['kani_bounds'] = 'scalars and Durations: full ranges (u64 secs x nanos < 10^9); packed Duration lists: exactly 2 elements (unwind 4); real code, no stubs'
    out.evidence.setdefault('assumptions', []).append('Kani 0.68 / CBMC 6.11 semantics of the compiled conversion code; Duration::as_millis/as_nanos are the real std functions there')
    if out.violations:
        return
    if kres.get('error'):
        out.inconclusive.append('Kani: ' + kres['error'])
    elif not kres.get('ok'):
        out.inconclusive.append('Kani harnesses failed (%s) but the MIR-side obligations produced no natively reproducible counterexample' % ', '.join(kres.get('failed', [])))
    else:
        n = len(kres['harnesses'])
        cov['obligations'] = cov.get('obligations', 0) + n
        cov['discharged'] = cov.get('discharged', 0) + n
