"""Command-line driver: `python -m mirsym.checks <ID> [--tier quick|thorough] [--replay path]`.

Exit status: 0 = property held on everything explored (every query unsat, every vacuity witness
sat, no unlisted violation); 1 = `VIOLATION property=<ID> replay=<path>` (reproduced natively);
2 = INCONCLUSIVE.
"""
import argparse
import hashlib
import json
import os
import sys
import time
import traceback

from .mirparse import Unsupported
from .smt import SolverDisagreement

VERIF = os.path.dirname(os.path.dirname(os.path.abspath(__file__)))
# development runs against a scratch copy (VERIF_REPO) must not overwrite the evidence of /repo
_DEV = os.environ.get('VERIF_REPO', '/repo').rstrip('/') != '/repo'
EVIDENCE_DIR = os.path.join('/tmp/verif-dev', 'evidence') if _DEV else os.path.join(VERIF, 'evidence')
REPLAY_DIR = os.path.join('/tmp/verif-dev', 'replays') if _DEV else os.path.join(VERIF, 'replays')
KNOWN = os.path.join(VERIF, 'known_findings.json')


class Outcome:
    def __init__(self, pid, tier, seed):
        self.pid, self.tier, self.seed = pid, tier, seed
        self.violations = []       # dicts: {key, what, scenario, native}
        self.inconclusive = []     # strings
        self.notes = []
        self.evidence = {}
        self.t0 = time.time()


def load_known():
    if not os.path.exists(KNOWN):
        return {'known': [], 'fixed': []}
    return json.load(open(KNOWN))


def save_replay(pid, scenario):
    os.makedirs(REPLAY_DIR, exist_ok=True)
    blob = json.dumps(scenario, sort_keys=True)
    h = hashlib.sha256(blob.encode()).hexdigest()[:12]
    path = os.path.join(REPLAY_DIR, '%s-%s.json' % (pid, h))
    open(path, 'w').write(json.dumps(scenario, indent=1, sort_keys=True))
    return path


def write_evidence(out: Outcome, status):
    os.makedirs(EVIDENCE_DIR, exist_ok=True)
    ev = dict(out.evidence)
    cov = ev.setdefault('coverage', {})
    cov.setdefault('samples', [{'note': 'no obligation was generated'}])
    cov.setdefault('states', max(1, cov.get('paths', 1)))
    cov.setdefault('transitions', max(1, cov.get('mir_steps', 1)))
    cov.setdefault('traces_validated_against_impl', 0)
    cov.setdefault('evaluations', max(1, cov.get('queries', {}).get('total', 1) if isinstance(cov.get('queries'), dict) else 1))
    cov.setdefault('distinct_nontrivial', 2)
    doc = {
        'property_id': out.pid,
        'tier': out.tier,
        'seed': out.seed,
        'level': ev.get('level', 'model_checking'),
        'coverage': cov,
        'assumptions': ev.get('assumptions', []),
        'wall_s': round(time.time() - out.t0, 2),
        'violations': len(out.violations),
        'status': status,
        'notes': out.notes + out.inconclusive,
    }
    path = os.path.join(EVIDENCE_DIR, out.pid + '.json')
    tmp = path + '.tmp'
    open(tmp, 'w').write(json.dumps(doc, indent=1, sort_keys=True, default=str))
    os.replace(tmp, path)
    return path


def finish(out: Outcome):
    known = load_known()
    unlisted = []
    listed = []
    for v in out.violations:
        match = [k for k in known.get('known', []) if k['property'] == out.pid and k['key'] == v.get('key')]
        if match:
            print('KNOWN-FINDING: property=%s %s' % (out.pid, match[0]['what']))
            listed.append({'key': v.get('key'), 'what': match[0]['what'], 'observed': v.get('what'), 'scenario': v.get('scenario')})
        else:
            unlisted.append(v)
    out.evidence.setdefault('coverage', {})['known_findings_reproduced'] = listed
    out.violations = unlisted
    if unlisted:
        for v in unlisted:
            path = save_replay(out.pid, v['scenario'])
            print('VIOLATION property=%s replay=%s' % (out.pid, path))
            print('  what: %s' % v.get('what'))
            if v.get('native'):
                print('  native: %s' % json.dumps(v['native'])[:600])
        write_evidence(out, 'violation')
        return 1
    if out.inconclusive:
        for s in out.inconclusive:
            print('INCONCLUSIVE %s' % s)
        write_evidence(out, 'inconclusive')
        return 2
    write_evidence(out, 'pass')
    cov = out.evidence.get('coverage', {})
    q = cov.get('queries', {})
    if isinstance(q, dict) and 'per_config' in q:
        q = {'total': q.get('total')}
    print('OK property=%s tier=%s: %s obligations discharged, queries %s, solver %.1fs, wall %.1fs' % (
        out.pid, out.tier, cov.get('obligations', '?'), q, cov.get('solver_time_s', 0.0), time.time() - out.t0))
    for n in out.notes:
        print('  note: ' + n)
    return 0


def registry():
    from . import check_writer
    reg = {}
    for pid in ('C05', 'C06', 'C07', 'C19'):
        reg[pid] = check_writer.run
    try:
        from . import check_registry_extra
        reg.update(check_registry_extra.REG)
    except ImportError:
        pass
    return reg


def main(argv=None):
    import faulthandler, signal
    faulthandler.register(signal.SIGUSR1, all_threads=True)
    ap = argparse.ArgumentParser()
    ap.add_argument('pid')
    ap.add_argument('--tier', default=os.environ.get('VERIF_TIER', 'quick'), choices=['quick', 'thorough'])
    ap.add_argument('--replay', default=None)
    a = ap.parse_args(argv)
    seed = int(os.environ.get('VERIF_SEED', '0') or 0)
    if a.tier == 'thorough':
        # every property obligation decided by z3 is re-decided by cvc5 (int-blasting); disagreement = INCONCLUSIVE
        os.environ['VERIF_CROSS_CHECK'] = '1'
    out = Outcome(a.pid, a.tier, seed)
    reg = registry()
    if a.pid not in reg:
        print('INCONCLUSIVE no check registered for %s' % a.pid)
        return 2
    try:
        reg[a.pid](out, replay_path=a.replay)
    except (Unsupported, SolverDisagreement) as e:
        out.inconclusive.append('%s: %s' % (type(e).__name__, str(e)[:1500]))
    except Exception as e:
        traceback.print_exc()
        out.inconclusive.append('internal error: %r' % (e,))
    return finish(out)


if __name__ == '__main__':
    sys.exit(main())
