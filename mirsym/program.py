"""Loading MIR dumps and resolving call sites to MIR bodies.

MIR item names look like `client::<impl at cadence/src/client.rs:1011:1: 1013:22>::count_with_tags`;
call sites look like `<Self as Counted<i64>>::count_with_tags` or `MetricFormatter::<'_>::format`.
The link between the two is the `impl` header found at the printed source span.
"""
import functools
import os
import re
from typing import Dict, List, Optional, Tuple

from .mirparse import parse_mir, Func, Unsupported, split_top, match_close, OPEN, CLOSE

IMPL_AT = re.compile(r'<impl at ([^:>]+):(\d+):(\d+): (\d+):(\d+)>')


@functools.lru_cache(maxsize=None)
def strip_generics(s: str) -> str:
    """Remove every balanced <...> group (and a preceding '::')."""
    out = []
    i, n = 0, len(s)
    while i < n:
        c = s[i]
        if c == '<':
            j = match_close(s, i)
            # drop a turbofish '::' that precedes the group
            if out[-2:] == [':', ':']:
                out = out[:-2]
            i = j + 1
            continue
        out.append(c)
        i += 1
    return ''.join(out)


@functools.lru_cache(maxsize=None)
def last_seg(path: str) -> str:
    path = path.strip()
    if path.startswith('&'):
        path = path.lstrip('&').strip()
        if path.startswith('mut '):
            path = path[4:]
    path = strip_generics(path)
    return path.split('::')[-1].strip()


@functools.lru_cache(maxsize=None)
def type_key(ty: str) -> str:
    """Canonical short key of a type: 'Vec<u64>', 'StatsdClient', 'i32', 'Duration'."""
    ty = ty.strip()
    ty = re.sub(r"'[a-z_]+\s*", '', ty)
    ty = re.sub(r'\bstd::(?:[a-z_]+::)+', '', ty)
    ty = re.sub(r'\bcore::(?:[a-z_]+::)+', '', ty)
    ty = re.sub(r'\balloc::(?:[a-z_]+::)+', '', ty)
    ty = re.sub(r'\b(?:[a-z_]+::)+(?=[A-Z])', '', ty)
    ty = ty.replace(' ', '')
    return ty


class ImplInfo:
    def __init__(self, trait: Optional[str], trait_args: str, self_ty: str, generics: str):
        self.trait = trait            # last segment, no generics
        self.trait_args = trait_args  # text inside <> of the trait, '' if none
        self.self_ty = self_ty        # type_key
        self.generics = generics      # text of impl<...>

    def __repr__(self):
        return 'impl %s%s for %s' % (self.trait or '', '<%s>' % self.trait_args if self.trait_args else '', self.self_ty)


def parse_impl_header(src: str) -> ImplInfo:
    """src starts at 'impl'. Understands `impl<G> Trait<A> for Type<B> where ...` and `impl<G> Type<B>`."""
    s = src.strip()
    if not s.startswith('impl'):
        raise Unsupported('impl header: ' + s[:60])
    s = s[4:]
    generics = ''
    if s.startswith('<'):
        j = match_close(s, 0)
        generics = s[1:j]
        s = s[j + 1:]
    s = s.strip()
    # cut at '{' or ' where'
    depth = 0
    end = len(s)
    i = 0
    while i < len(s):
        c = s[i]
        if c in '-=' and i + 1 < len(s) and s[i + 1] == '>':
            i += 2
            continue
        if c in '<([':
            depth += 1
        elif c in '>)]':
            depth -= 1
        elif depth == 0 and (c == '{' or s.startswith(' where', i) or s.startswith('\nwhere', i)):
            end = i
            break
        i += 1
    head = ' '.join(s[:end].split())
    # top-level ' for '
    depth = 0
    pos = None
    i = 0
    while i < len(head):
        c = head[i]
        if c in '-=' and i + 1 < len(head) and head[i + 1] == '>':
            i += 2
            continue
        if c in '<([':
            depth += 1
        elif c in '>)]':
            depth -= 1
        elif depth == 0 and head.startswith(' for ', i):
            pos = i
            break
        i += 1
    if pos is None:
        return ImplInfo(None, '', type_key(head), generics)
    tr = head[:pos].strip()
    ty = head[pos + 5:].strip()
    targs = ''
    if '<' in tr:
        k = tr.index('<')
        targs = tr[k + 1:match_close(tr, k)]
    return ImplInfo(last_seg(tr), type_key(targs), type_key(ty), generics)


class Program:
    def __init__(self):
        self.funcs: Dict[str, Func] = {}
        self.src_roots: Dict[str, str] = {}          # crate -> directory that printed paths are relative to
        self.impl_of: Dict[str, ImplInfo] = {}       # func name -> impl info
        self.by_method: Dict[str, List[str]] = {}    # method name -> [func names]
        self.closures: Dict[str, str] = {}           # '{closure@...}' -> func name
        self.free: Dict[str, List[str]] = {}         # last segment -> [func names] (non-impl items)
        self.traits_default: Dict[Tuple[str, str], str] = {}   # (Trait, method) -> func name
        self.source_cache: Dict[str, List[str]] = {}
        self.drop_impls: Dict[str, str] = {}         # type key (no generics) -> drop fn name
        self._fim_cache = {}

    # -- loading ---------------------------------------------------------------
    def load(self, mir_path: str, crate: str, src_root: str):
        text = open(mir_path, encoding='utf-8', errors='surrogateescape').read()
        funcs = parse_mir(text, crate)
        self.src_roots[crate] = src_root
        for name, f in funcs.items():
            if name in self.funcs:
                # same item name in two crates: qualify
                name = crate + '::' + name
                f.name = name
            self.funcs[name] = f
        self._index(funcs.values())
        self._fim_cache = {}

    def _source_lines(self, crate: str, rel: str) -> List[str]:
        key = crate + ':' + rel
        if key not in self.source_cache:
            root = self.src_roots[crate]
            p = os.path.join(root, rel)
            if not os.path.exists(p):
                # paths are printed relative to the workspace root or the crate dir
                alt = os.path.join(root, os.path.basename(os.path.dirname(p)), os.path.basename(p))
                p = alt if os.path.exists(alt) else p
            self.source_cache[key] = open(p, encoding='utf-8').read().split('\n')
        return self.source_cache[key]

    def _impl_info(self, crate: str, m) -> ImplInfo:
        rel, l1, c1 = m.group(1), int(m.group(2)), int(m.group(3))
        lines = self._source_lines(crate, rel)
        text = '\n'.join(lines[l1 - 1:l1 + 12])
        start = text[c1 - 1:]
        if start.startswith('impl'):
            return parse_impl_header(start)
        # a derive: the span points at the derive attribute token, e.g. `Clone` in #[derive(Debug, Clone)]
        word = re.match(r'[A-Za-z_]+', start)
        if not word:
            raise Unsupported('cannot read impl header at %s:%d:%d' % (rel, l1, c1))
        # the item that follows the attribute
        k = l1
        while k < len(lines) and not re.match(r'\s*(pub(\([a-z]+\))? )?(struct|enum|union) ', lines[k]):
            k += 1
        if k >= len(lines):
            raise Unsupported('derive target not found at %s:%d' % (rel, l1))
        tm = re.match(r'\s*(?:pub(?:\([a-z]+\))? )?(?:struct|enum|union) ([A-Za-z_0-9]+)', lines[k])
        return ImplInfo(word.group(0), '', tm.group(1), '')

    def _index(self, funcs):
        for f in funcs:
            if f.kind not in ('fn',):
                continue
            m = IMPL_AT.search(f.name)
            tail = f.name[m.end():] if m else f.name
            # closures: fn path::{closure#0}(_1: &{closure@file:..}, ...)
            if '{closure#' in f.name.split('::')[-1] or re.search(r'\{closure#\d+\}$', f.name):
                if f.arg_types:
                    cm = re.search(r'\{closure@[^}]*\}', f.arg_types[0])
                    if cm:
                        self.closures[cm.group(0)] = f.name
                continue
            if m and '{closure#' not in tail:
                info = self._impl_info(f.crate, m)
                method = tail.lstrip(':').split('::')[0].split('#')[0]
                if '$' in info.self_ty and f.arg_types:
                    # impl generated by macro_rules!: the header names a metavariable; the receiver type of the
                    # MIR signature is the Self type (methods taking self / &self)
                    t = f.arg_types[0].strip()
                    while t.startswith('&'):
                        t = t[1:].strip()
                        if t.startswith('mut '):
                            t = t[4:]
                    info = ImplInfo(info.trait, info.trait_args, type_key(t), info.generics)
                self.impl_of[f.name] = info
                self.by_method.setdefault(method, []).append(f.name)
                if info.trait == 'Drop' and method == 'drop':
                    self.drop_impls[strip_generics(info.self_ty)] = f.name
            elif not m:
                segs = strip_generics(f.name).split('::')
                self.free.setdefault(segs[-1], []).append(f.name)
                if len(segs) >= 2 and segs[-2][:1].isupper():
                    # trait default method (client::Counted::count) or inherent assoc fn printed by path
                    self.traits_default[(segs[-2], segs[-1])] = f.name

    # -- resolution --------------------------------------------------------------
    def find_impl_method(self, method: str, self_ty: str, trait: Optional[str] = None,
                         trait_args: Optional[str] = None) -> Optional[str]:
        key = (method, self_ty, trait, trait_args)
        if key not in self._fim_cache:
            self._fim_cache[key] = self._find_impl_method(method, self_ty, trait, trait_args)
        return self._fim_cache[key]

    def _find_impl_method(self, method: str, self_ty: str, trait: Optional[str] = None,
                          trait_args: Optional[str] = None) -> Optional[str]:
        """Find the MIR body of `method` for receiver type key `self_ty` (+ optional trait)."""
        cands = self.by_method.get(method, [])
        self_nog = strip_generics(self_ty)
        best = None
        for name in cands:
            info = self.impl_of[name]
            if trait is not None and info.trait is not None and info.trait != trait:
                continue
            if trait is None and info.trait is not None:
                # inherent call syntax `Type::method` may also name a trait method; allow but prefer inherent
                pass
            ity = info.self_ty
            generic_params = [g.strip().split(':')[0].strip() for g in split_top(info.generics)] if info.generics else []
            if ity == self_ty or strip_generics(ity) == self_nog and ('<' not in ity or '<' not in self_ty or _generic_match(ity, self_ty, generic_params)):
                if trait_args is not None and info.trait_args and info.trait_args != trait_args:
                    if info.trait_args not in generic_params:
                        continue
                if info.trait is None and trait is None:
                    return name
                best = best or name
            elif ity in generic_params and trait is not None and info.trait == trait:
                # blanket impl<T> Trait for T: accept as a last resort
                best = best or name
        return best

    def closure_fn(self, tyname: str) -> Optional[str]:
        return self.closures.get(tyname)


def _generic_match(impl_ty: str, actual: str, params: List[str]) -> bool:
    """impl type 'Vec<T>' vs actual 'Vec<u64>' with T a parameter; or exact."""
    if impl_ty == actual:
        return True
    a = impl_ty[impl_ty.index('<') + 1:-1] if '<' in impl_ty else ''
    b = actual[actual.index('<') + 1:-1] if '<' in actual else ''
    aa, bb = split_top(a), split_top(b)
    if len(aa) != len(bb):
        return False
    for x, y in zip(aa, bb):
        if x in params:
            continue
        if x != y:
            return False
    return True
