"""Thread-program extraction for the queuing sink (C08-C11, C15, C16, C10).

Each program (a producer action, the worker thread) is executed on the MIR with every *visible* operation
(channel op, atomic, Arc count change, spawn, wrapped-sink call, handler call, data-dependent branch) answered by
an oracle and recorded. The recorded paths form a tree (automaton) per program; the worker's loop is folded at the
loop head. The product of the automata with contract-level models of the shared objects is then unrolled in SMT
with symbolic schedule variables (queue_model.py).
"""
import z3

from .mirparse import Unsupported
from .values import *
from .executor import Explorer, Unwinding, PathCut, call_callable
from . import client_model      # registers the Box<dyn Fn> call stubs before any install()
from . import stubs, env_io, sinks_model
from .stubs import ok, err, is_variant, as_str, some, NONE, UNIT


class LoopBack(Exception):
    def __init__(self, fn, bb):
        self.fn, self.bb = fn, bb


def op(ex, kind, outcome=None, **kw):
    d = {'kind': kind, 'out': outcome}
    d.update(kw)
    ex.ops.append(d)
    return d


# ---------------------------------------------------------------------------------------------------------
# oracle-mode natives
# ---------------------------------------------------------------------------------------------------------

def q_bounded(ex, args, callee):
    st = Cell({'cap': args[0]}, 'channel')
    ex.events.append(('bounded', args[0]))
    return Agg('tuple', '', None, (Native('QSender', st, fresh_id()), Native('QReceiver', st, fresh_id())))


def q_unbounded(ex, args, callee):
    st = Cell({'cap': None}, 'channel')
    ex.events.append(('unbounded',))
    return Agg('tuple', '', None, (Native('QSender', st, fresh_id()), Native('QReceiver', st, fresh_id())))


def payload_of(ex, v):
    """Channel entries are Option<String>: ('some', token) or ('none',)."""
    if is_variant(v, 'Some'):
        s = as_str(ex, v.fields[0])
        return ('some', s.key())
    if is_variant(v, 'None'):
        return ('none',)
    raise Unsupported('channel payload %r' % (v,))


def q_try_send(ex, args, callee):
    pl = payload_of(ex, args[1])
    k = ex.nondet(3, 'try_send')
    label = ['ok', 'full', 'disconnected'][k]
    op(ex, 'try_send', label, payload=pl)
    if k == 0:
        return ok(UNIT)
    variant = {'disconnected': ('Disconnected', 1), 'full': ('Full', 0)}[label]
    return err(Agg('enum', 'TrySendError', variant[0], (args[1],), variant[1]))


def q_send(ex, args, callee):
    pl = payload_of(ex, args[1])
    op(ex, 'send_blocking', 'ok', payload=pl)
    return ok(UNIT)


def _recv_value(ex, kind):
    k = ex.nondet(3, kind)
    label = ['some', 'none', 'disconnected'][k]
    op(ex, 'recv', label, how=kind)
    if k == 0:
        ex.recv_count = getattr(ex, 'recv_count', 0) + 1
        return 0, some(Str((Atom('recvd', z3.BitVec('len_recvd', 64)),), 'String'))
    if k == 1:
        return 1, NONE
    return 2, None


def q_recv(ex, args, callee):
    k, v = _recv_value(ex, 'recv')
    if k == 2:
        return err(Agg('struct', 'RecvError', None, ()))
    return ok(v)


def q_try_recv(ex, args, callee):
    k = ex.nondet(3, 'try_recv')
    label = ['some', 'none', 'empty'][k]
    op(ex, 'try_recv', label)
    if k == 0:
        ex.recv_count = getattr(ex, 'recv_count', 0) + 1
        return ok(some(Str((Atom('recvd', z3.BitVec('len_recvd', 64)),), 'String')))
    if k == 1:
        return ok(NONE)
    return err(Agg('enum', 'TryRecvError', 'Empty', (), 0))


def q_iter(ex, args, callee):
    return Native('QIter', ex.deref_all(args[0]).state, fresh_id())


def q_iter_next(ex, args, callee):
    k, v = _recv_value(ex, 'iter.next')
    if k == 2:
        return NONE
    return some(v)


def q_is_empty(ex, args, callee):
    k = ex.nondet(2, 'is_empty')
    op(ex, 'is_empty', ['true', 'false'][k])
    return TRUE if k == 0 else FALSE


def q_is_full(ex, args, callee):
    k = ex.nondet(2, 'is_full')
    op(ex, 'is_full', ['true', 'false'][k])
    return TRUE if k == 0 else FALSE


def q_len(ex, args, callee):
    r = ex.fresh('reg_len', 64)
    op(ex, 'chan_len', None, reg=r)
    ex.regs.append(r)
    return Int(r, 'usize')


def q_capacity(ex, args, callee):
    """Sender/Receiver::capacity: the value given to bounded(), None for unbounded() (not a visible operation: it never changes)."""
    cap = ex.deref_all(args[0]).state.v['cap']
    return NONE if cap is None else some(cap)


def q_spawn(ex, args, callee):
    clo = args[0]
    ex.spawned.append(clo)
    op(ex, 'spawn', None, closure=(clo.fn if isinstance(clo, Closure) else repr(clo)))
    return Native('JoinHandle', None, fresh_id())


def wrapped_emit(ex, args, callee):
    s = as_str(ex, args[1])
    k = ex.nondet(3, 'wrapped')
    label = ['ok', 'err', 'panic'][k]
    tok = None
    if k == 1:
        tok = env_io.io_error(ex, 'wrapped-%d' % len(ex.ops))
    op(ex, 'wrapped_emit', label, arg=s.key(), err=tok.ident if tok is not None else None,
       kind_term=tok.state[1] if tok is not None else None)
    if k == 0:
        # the wrapped sink is environment: the count it reports is its own business (any usize)
        return ok(Int(ex.fresh('wrapped_ret', 64), 'usize'))
    if k == 1:
        return err(tok)
    raise Unwinding(('wrapped-sink-panic',))


def wrapped_flush(ex, args, callee):
    # the wrapped sink's flush is environment: Ok(()) or Err(e); the result is remembered so that the caller's own
    # result can be compared with it
    k = ex.nondet(2, 'wrapped_flush')
    if k == 0:
        op(ex, 'wrapped_flush', 'ok')
        ex.out.setdefault('wrapped_flush_results', []).append(('ok', None))
        return ok(UNIT)
    tok = env_io.io_error(ex, 'wrapped-flush-%d' % len(ex.ops))
    op(ex, 'wrapped_flush', 'err')
    ex.out.setdefault('wrapped_flush_results', []).append(('err', tok.ident))
    return err(tok)


def wrapped_stats(ex, args, callee):
    op(ex, 'wrapped_stats', None)
    syms = [z3.BitVec('wstat_%d' % i, 64) for i in range(4)]
    ex.out['stats_syms'] = syms
    return Agg('struct', 'SinkStats', None, tuple(Int(t, 'u64') for t in syms))


def wrapped_drop(ex, v):
    op(ex, 'wrapped_drop', None)


def handler_call(ex, args, callee):
    tup = args[1]
    e = tup.fields[0] if isinstance(tup, Agg) else tup
    op(ex, 'handler', None, err=e.ident if isinstance(e, Native) else None)
    return UNIT


def atomic_hook(ex, kind, a, operand, order):
    name = a.state.name
    cur = a.state.v
    if kind == 'load':
        if isinstance(cur, Bool):
            k = ex.nondet(2, 'load_' + name)
            op(ex, 'load', ['true', 'false'][k], loc=name, order=order)
            return TRUE if k == 0 else FALSE
        r = ex.fresh('reg_' + name.replace(':', '_'), cur.bits)
        ex.regs.append(r)
        op(ex, 'load', None, loc=name, order=order, reg=r)
        return Int(r, cur.ty)
    if kind == 'store':
        val = operand.concrete() if isinstance(operand, (Bool, Int)) else None
        op(ex, 'store', None, loc=name, order=order, value=val)
        return UNIT
    if kind == 'fetch_add':
        val = operand.concrete()
        op(ex, 'fetch_add', None, loc=name, order=order, value=val)
        r = ex.fresh('reg_old_' + name.replace(':', '_'), cur.bits)
        return Int(r, cur.ty)
    raise Unsupported('atomic %s on %s in a thread program' % (kind, name))


def arc_clone_oracle(ex, args, callee):
    a = ex.deref_all(args[0])
    label = a.cell.v.label
    op(ex, 'arc_inc', None, label=label)
    return a


def arc_strong_count_oracle(ex, args, callee):
    a = ex.deref_all(args[0])
    r = ex.fresh('reg_rc', 64)
    ex.regs.append(r)
    op(ex, 'arc_count', None, label=a.cell.v.label, reg=r)
    return Int(r, 'usize')


def install_oracle(ex: Explorer):
    sinks_model.install(ex)
    from . import client_model   # Box<dyn Fn> calls
    ex.stubs['bounded'] = q_bounded
    ex.stubs['unbounded'] = q_unbounded
    ex.stubs['Sender::try_send'] = lambda ex, args, callee: _by_native(ex, args, callee, 'try_send')
    ex.stubs['Sender::send'] = lambda ex, args, callee: _by_native(ex, args, callee, 'send')
    ex.stubs['Sender::is_full'] = q_is_full
    ex.stubs['Receiver::recv'] = q_recv
    ex.stubs['Receiver::try_recv'] = q_try_recv
    ex.stubs['Receiver::try_iter'] = lambda ex, args, callee: Native('QTryIter', 0, fresh_id())
    ex.stubs['Receiver::iter'] = q_iter
    ex.stubs['Receiver::is_empty'] = q_is_empty
    ex.stubs['Receiver::is_full'] = q_is_full
    ex.stubs['Receiver::len'] = q_len
    ex.stubs['Sender::len'] = q_len
    ex.stubs['Sender::capacity'] = q_capacity
    ex.stubs['Receiver::capacity'] = q_capacity
    ex.stubs['<Iter as Iterator>::next'] = q_iter_next
    ex.stubs['Arc::strong_count'] = lambda ex, args, callee: arc_strong_count_oracle(ex, args, callee) if getattr(ex, 'oracle', False) else stubs.arc_strong_count(ex, args, callee)
    ex.stubs['spawn'] = q_spawn
    ex.stubs['thread::spawn'] = q_spawn
    ex.stubs['yield_now'] = lambda ex, args, callee: UNIT
    ex.natives['QIter'] = {'Iterator::next': q_iter_next, 'next': q_iter_next}
    ex.natives['EnvSink'] = {'MetricSink::emit': wrapped_emit, 'emit': wrapped_emit, 'MetricSink::flush': wrapped_flush, 'flush': wrapped_flush,
                             'MetricSink::stats': wrapped_stats, 'stats': wrapped_stats, 'drop': wrapped_drop}
    ex.natives['EnvIoHandler'] = {'Fn::call': handler_call}
    ex.ops = []
    ex.regs = []
    ex.spawned = []


def _by_native(ex, args, callee, what):
    s = ex.deref_all(args[0])
    if isinstance(s, Native) and s.rty == 'QSender':
        return q_try_send(ex, args, callee) if what == 'try_send' else q_send(ex, args, callee)
    # other channels (the spy sink's) keep the sequential model
    return sinks_model.sender_try_send(ex, args, callee)
