"""Contract-level models ("stubs") of the std / crossbeam functions called from cadence's MIR.

Every entry is part of the trusted base of the checks and is listed in the evidence
(`stubs` key). Behavioural stubs with real logic (BufWriter, trim_end_matches, Duration
conversions, format templates) are validated against the real functions by the
`replay model-diff` preflight.
"""
import re
import z3

from .mirparse import Unsupported
from .values import *
from .executor import Explorer, Unwinding, PathCut, call_closure, _ctor_value, dispatch
from .program import strip_generics, last_seg, type_key


def some(v):
    return Agg('enum', 'Option', 'Some', (v,), 1)


NONE = Agg('enum', 'Option', 'None', (), 0)


def ok(v):
    return Agg('enum', 'Result', 'Ok', (v,), 0)


def err(e):
    return Agg('enum', 'Result', 'Err', (e,), 1)


def is_variant(v, name):
    return isinstance(v, Agg) and v.kind == 'enum' and v.variant == name


def as_str(ex, v) -> Str:
    v = ex.deref_all(v)
    if isinstance(v, BoxV):
        v = v.cell.v
    if not isinstance(v, Str):
        raise Unsupported('expected a string, got %r' % (v,))
    return v


def panic(ex, what):
    ex.events.append(('panic', what))
    raise Unwinding(what)


# ----------------------------------------------------------------------------------
# registration helper
# ----------------------------------------------------------------------------------

REG = {}


def stub(*names, override=False):
    def deco(fn):
        for n in names:
            if n in REG and not override and REG[n].__module__ == fn.__module__:
                # a second registration in the same module silently replaces a (possibly more precise) model
                raise RuntimeError('stub %s registered twice in %s' % (n, fn.__module__))
            REG[n] = fn
        return fn
    return deco


def install(ex: Explorer):
    ex.stubs.update(REG)


# ----------------------------------------------------------------------------------
# Try / FromResidual / Option / Result helpers
# ----------------------------------------------------------------------------------

@stub('<Result as Try>::branch')
def result_branch(ex, args, callee):
    v = args[0]
    if is_variant(v, 'Ok'):
        return Agg('enum', 'ControlFlow', 'Continue', (v.fields[0],), 0)
    if is_variant(v, 'Err'):
        return Agg('enum', 'ControlFlow', 'Break', (Agg('enum', 'Result', 'Err', (v.fields[0],), 1),), 1)
    raise Unsupported('Try::branch on %r' % (v,))


@stub('<Option as Try>::branch')
def option_branch(ex, args, callee):
    v = args[0]
    if is_variant(v, 'Some'):
        return Agg('enum', 'ControlFlow', 'Continue', (v.fields[0],), 0)
    return Agg('enum', 'ControlFlow', 'Break', (NONE,), 1)


@stub('<Result as FromResidual>::from_residual')
def result_from_residual(ex, args, callee):
    v = args[0]
    if not is_variant(v, 'Err'):
        raise Unsupported('from_residual on %r' % (v,))
    e = v.fields[0]
    # `?` converts the error with From::from: the target error type is in the callee text
    # <Result<T, MetricError> as FromResidual<Result<Infallible, std::io::Error>>>
    m = re.match(r'^<Result<(.*)> as FromResidual<Result<Infallible, (.*)>>>::from_residual$', callee.strip())
    if m:
        from .mirparse import split_top
        tgt = type_key(split_top(m.group(1))[-1])
        src = type_key(m.group(2))
        if tgt != src:
            name = ex.prog.find_impl_method('from', tgt, 'From', src)
            if name is None:
                raise Unsupported('no From<%s> for %s' % (src, tgt))
            e = ex.call(name, [e])
    return err(e)


@stub('Option::as_deref')
def option_as_deref(ex, args, callee):
    v = ex.deref_all(args[0])
    if is_variant(v, 'Some'):
        inner = v.fields[0]
        if isinstance(inner, Str):
            return some(inner.as_type('str'))
        if isinstance(inner, ArcV):
            if not isinstance(inner.cell.v, ArcInner):
                raise Unsupported('use of dropped Arc')
            return some(ArcInnerRef(inner.cell))
        if isinstance(inner, BoxV):
            return some(Ref(inner.cell, (), False))
        raise Unsupported('as_deref of %r' % (inner,))
    return NONE


@stub('Option::ok_or')
def option_ok_or(ex, args, callee):
    v = args[0]
    if is_variant(v, 'Some'):
        return ok(v.fields[0])
    return err(args[1])


@stub('Option::unwrap_or')
def option_unwrap_or(ex, args, callee):
    v = args[0]
    if is_variant(v, 'Some'):
        return v.fields[0]
    return args[1]


@stub('Option::unwrap', 'Option::expect')
def option_unwrap(ex, args, callee):
    v = args[0]
    if is_variant(v, 'Some'):
        return v.fields[0]
    panic(ex, ('unwrap-none', callee))


@stub('Result::unwrap', 'Result::expect')
def result_unwrap(ex, args, callee):
    v = args[0]
    if is_variant(v, 'Ok'):
        return v.fields[0]
    panic(ex, ('unwrap-err', callee))


@stub('Result::is_ok')
def result_is_ok(ex, args, callee):
    v = ex.deref_all(args[0])
    return TRUE if is_variant(v, 'Ok') else FALSE


@stub('Result::is_err')
def result_is_err(ex, args, callee):
    v = ex.deref_all(args[0])
    return TRUE if is_variant(v, 'Err') else FALSE


@stub('Option::is_some')
def option_is_some(ex, args, callee):
    v = ex.deref_all(args[0])
    return TRUE if is_variant(v, 'Some') else FALSE


@stub('Option::is_none')
def option_is_none(ex, args, callee):
    v = ex.deref_all(args[0])
    return TRUE if is_variant(v, 'None') else FALSE


# ----------------------------------------------------------------------------------
# Deref / Into / From / Clone / Default on std types
# ----------------------------------------------------------------------------------

@stub('<Vec as Deref>::deref', '<Vec as DerefMut>::deref_mut', 'Vec::as_slice', '<Vec as AsRef>::as_ref')
def vec_deref(ex, args, callee):
    r = args[0]
    v = ex.deref_all(r)
    if isinstance(v, Str):          # Vec<u8> modelled as a byte string
        return v.as_type('bytes')
    if isinstance(v, Vec):
        return r                    # a slice reference is the reference to the Vec
    raise Unsupported('Vec deref of %r' % (v,))


@stub('<String as Deref>::deref', 'String::as_str', '<String as AsRef>::as_ref', '<String as Borrow>::borrow')
def string_deref(ex, args, callee):
    return as_str(ex, args[0]).as_type('str')


@stub('String::as_bytes', 'str::as_bytes')
def str_as_bytes(ex, args, callee):
    return as_str(ex, args[0]).as_type('bytes')


@stub('String::len', 'str::len')
def str_len(ex, args, callee):
    return Int(as_str(ex, args[0]).length(), 'usize')


@stub('str::is_empty', 'String::is_empty')
def str_is_empty(ex, args, callee):
    s = as_str(ex, args[0])
    return Bool(s.length() == 0)


@stub('String::new')
def string_new(ex, args, callee):
    return Str((), 'String')


@stub('String::with_capacity')
def string_with_capacity(ex, args, callee):
    return Str((), 'String')


@stub('String::push_str')
def string_push_str(ex, args, callee):
    r = args[0]
    cur = as_str(ex, r)
    ex.store(r, Str(cur.pieces + as_str(ex, args[1]).pieces, 'String'))
    return UNIT


@stub('String::push')
def string_push(ex, args, callee):
    r = args[0]
    cur = as_str(ex, r)
    ch = args[1].concrete()
    if ch is None:
        raise Unsupported('symbolic char')
    ex.store(r, Str(cur.pieces + (chr(ch).encode('utf-8'),), 'String'))
    return UNIT


@stub('<String as Clone>::clone', '<str as ToString>::to_string', '<String as ToString>::to_string',
      'str::to_string', 'str::to_owned', '<str as ToOwned>::to_owned', '<String as From>::from', 'String::from')
def string_clone(ex, args, callee):
    return as_str(ex, args[0]).as_type('String')


@stub('<Arc as Deref>::deref')
def arc_deref(ex, args, callee):
    a = ex.deref_all(args[0])
    if not isinstance(a, ArcV):
        raise Unsupported('Arc deref of %r' % (a,))
    inner = a.cell.v
    if not isinstance(inner, ArcInner):
        raise Unsupported('use of dropped Arc')
    return ArcInnerRef(a.cell)


def ArcInnerRef(cell):
    """A reference to the pointee (which lives in its own cell inside the ArcInner)."""
    return Ref(cell.v.value, (), False)


@stub('<Arc as Clone>::clone')
def arc_clone(ex, args, callee):
    a = ex.deref_all(args[0])
    inner = a.cell.v
    if getattr(ex, 'oracle', False):
        ex.ops.append({'kind': 'arc_inc', 'out': None, 'label': inner.label})
        return a
    if not isinstance(inner, ArcInner):
        raise Unsupported('clone of dropped Arc')
    a.cell.v = ArcInner(inner.value, inner.strong + 1, inner.label)
    ex.events.append(('arc_inc', inner.label, inner.strong + 1))
    return a


@stub('Arc::new')
def arc_new(ex, args, callee):
    label = 'arc%d' % fresh_id()
    try:
        label = 'Arc<%s>' % ex.rtype(args[0])
    except Unsupported:
        pass
    return ArcV(Cell(ArcInner(Cell(args[0], 'arc-pointee'), 1, label), label))


@stub('Arc::strong_count')
def arc_strong_count(ex, args, callee):
    a = ex.deref_all(args[0])
    return mk_int(a.cell.v.strong, 'usize')


@stub('Box::new')
def box_new(ex, args, callee):
    return BoxV(Cell(args[0], 'box'))


@stub('<Box as Deref>::deref')
def box_deref(ex, args, callee):
    b = ex.deref_all(args[0])
    return Ref(b.cell, (), False)


@stub('<u64 as Default>::default')
def u64_default(ex, args, callee):
    return mk_int(0, 'u64')


@stub('<i64 as From>::from', '<u64 as From>::from', '<i64 as Into>::into', '<u64 as Into>::into',
      '<i32 as Into>::into', '<u32 as Into>::into')
def int_widen(ex, args, callee):
    # <i32 as Into<i64>>::into / <i64 as From<i32>>::from
    m = re.match(r'^<([a-z0-9]+) as (Into|From)<([a-z0-9]+)>>', callee.strip())
    if not m:
        raise Unsupported('widening call ' + callee)
    a, kind, b = m.groups()
    tgt = b if kind == 'Into' else a
    from .executor import _int_cast
    return _int_cast(args[0], tgt)


@stub('must_use', 'std::hint::must_use', 'core::hint::must_use')
def must_use(ex, args, callee):
    return args[0]


@stub('<* as Into>::into')
def into_generic(ex, args, callee):
    # <&SocketStats as Into<SinkStats>>::into  -> From impl in the crate
    m = re.match(r'^<(.*) as Into<(.*)>>::into$', callee.strip())
    if m:
        src, tgt = type_key(m.group(1)), type_key(m.group(2))
        if src == tgt:
            return args[0]
        name = ex.prog.find_impl_method('from', tgt, 'From', src)
        if name is not None:
            return ex.call(name, args)
    raise Unsupported('Into::into ' + callee)


@stub('<* as From>::from')
def from_generic(ex, args, callee):
    m = re.match(r'^<(.*) as From<(.*)>>::from$', callee.strip())
    if m:
        tgt, src = type_key(m.group(1)), type_key(m.group(2))
        if src == tgt:
            return args[0]
        if tgt == 'T' and ex.out.get('generic_T'):
            # MetricBuilder<T>: T is fixed by the entry point's return type (the harness knows it)
            name = ex.prog.find_impl_method('from', ex.out['generic_T'], 'From', src)
            if name is not None:
                return ex.call(name, args)
    raise Unsupported('From::from ' + callee)


# ----------------------------------------------------------------------------------
# Vec / slices / iterators
# ----------------------------------------------------------------------------------

@stub('Vec::new', 'Vec::with_capacity')
def vec_new(ex, args, callee):
    m = re.search(r'Vec::<(.*)>::(?:new|with_capacity)$', callee.strip())
    return Vec((), type_key(m.group(1)) if m else '')


@stub('Vec::len', '<[T]>::len', 'slice::len')
def vec_len(ex, args, callee):
    v = ex.deref_all(args[0])
    if isinstance(v, Str):
        return Int(v.length(), 'usize')
    if isinstance(v, Vec):
        return mk_int(len(v.elems), 'usize')
    raise Unsupported('len of %r' % (v,))


@stub('Vec::is_empty', 'slice::is_empty')
def vec_is_empty(ex, args, callee):
    v = ex.deref_all(args[0])
    if isinstance(v, Str):
        return Bool(v.length() == 0)
    return TRUE if len(v.elems) == 0 else FALSE


@stub('Vec::push')
def vec_push(ex, args, callee):
    r = args[0]
    v = ex.load(r)
    ex.store(r, Vec(v.elems + (args[1],), v.ety))
    return UNIT


@stub('<Vec as From>::from', 'Vec::from', 'slice::to_vec')
def vec_from_bytes(ex, args, callee):
    v = ex.deref_all(args[0])
    if isinstance(v, Str):
        return v.as_type('Vec<u8>')
    if isinstance(v, Vec):
        return v
    raise Unsupported('Vec::from %r' % (v,))


@stub('slice::iter', 'Vec::iter')
def slice_iter(ex, args, callee):
    r = args[0]
    v = ex.deref_all(r)
    if not isinstance(v, Vec):
        raise Unsupported('iter over %r' % (v,))
    # find the reference to the Vec itself
    while isinstance(r, Ref) and isinstance(ex.load(r), Ref):
        r = ex.load(r)
    return Native('SliceIter', (r, 0, len(v.elems)))


def iter_next(ex, itv):
    """Advance an iterator value; returns (new_iter, Option item)."""
    if isinstance(itv, Native) and itv.rty == 'SliceIter':
        r, pos, end = itv.state
        if pos >= end:
            return itv, NONE
        return Native('SliceIter', (r, pos + 1, end)), some(Ref(r.cell, r.path + (pos,), False))
    if isinstance(itv, Native) and itv.rty == 'VecIntoIter':
        elems, pos = itv.state
        if pos >= len(elems):
            return itv, NONE
        return Native('VecIntoIter', (elems, pos + 1)), some(elems[pos])
    if isinstance(itv, Native) and itv.rty == 'Enumerate':
        inner, n = itv.state
        inner2, item = iter_next(ex, inner)
        if is_variant(item, 'None'):
            return Native('Enumerate', (inner2, n)), NONE
        return Native('Enumerate', (inner2, n + 1)), some(Agg('tuple', '', None, (mk_int(n, 'usize'), item.fields[0])))
    if isinstance(itv, Native) and itv.rty == 'Map':
        inner, clo = itv.state
        inner2, item = iter_next(ex, inner)
        if is_variant(item, 'None'):
            return Native('Map', (inner2, clo)), NONE
        c = Cell(clo, 'map-closure')
        res = call_closure(ex, clo, [Ref(c, (), True), Agg('tuple', '', None, (item.fields[0],))])
        return Native('Map', (inner2, c.v)), some(res)
    if isinstance(itv, Native) and itv.rty == 'Take':
        inner, n = itv.state
        if n <= 0:
            return itv, NONE
        inner2, item = iter_next(ex, inner)
        return Native('Take', (inner2, n - 1), itv.ident), item
    if isinstance(itv, Native) and itv.rty == 'Flatten':
        # flatten over an iterator of Options (by reference or by value): None entries are skipped
        inner = itv.state
        while True:
            inner, item = iter_next(ex, inner)
            if is_variant(item, 'None'):
                return Native('Flatten', inner, itv.ident), NONE
            x = item.fields[0]
            v = ex.load(x) if isinstance(x, Ref) else x
            if is_variant(v, 'Some'):
                return Native('Flatten', inner, itv.ident), some(Ref(x.cell, x.path + (0,), x.mut) if isinstance(x, Ref) else v.fields[0])
            if not is_variant(v, 'None'):
                raise Unsupported('flatten over %r' % (v,))
    if isinstance(itv, Native) and itv.rty == 'QTryIter':
        # crossbeam's Receiver::try_iter(): next() = try_recv().ok(); batches of more than 2 entries are cut (bound)
        n = itv.state
        h = ex.stubs.get('Receiver::try_recv')
        if h is None:
            raise Unsupported('try_iter outside the queue model')
        r = h(ex, [None], 'Receiver::try_recv')
        if is_variant(r, 'Ok'):
            if n >= 2:
                raise PathCut('try_iter batch longer than 2')
            return Native('QTryIter', n + 1, itv.ident), some(r.fields[0])
        return itv, NONE
    raise Unsupported('next() on %r' % (itv,))


@stub('<* as Iterator>::next')
def iterator_next(ex, args, callee):
    r = args[0]
    itv = ex.load(r)
    it2, item = iter_next(ex, itv)
    ex.store(r, it2)
    return item


@stub('<* as IntoIterator>::into_iter')
def into_iter(ex, args, callee):
    v = args[0]
    if isinstance(v, Native) and v.rty in ('SliceIter', 'Enumerate', 'Map', 'VecIntoIter', 'QIter'):
        return v
    if isinstance(v, Vec):
        return Native('VecIntoIter', (v.elems, 0))
    if isinstance(v, Ref):
        inner = ex.deref_all(v)
        if isinstance(inner, Vec):
            return slice_iter(ex, [v], callee)
    raise Unsupported('into_iter of %r' % (v,))


@stub('<* as Iterator>::take')
def iter_take(ex, args, callee):
    n = args[1].concrete() if isinstance(args[1], Int) else None
    if n is None:
        raise Unsupported('take() with a symbolic count')
    return Native('Take', (args[0], n), fresh_id())


@stub('slice::sort_by_key', 'slice::sort_by_cached_key')
def slice_sort_by_key(ex, args, callee):
    """Stable sort by a key the closure computes; supported when every key is concrete (bool / small int)."""
    r = args[0]
    v = ex.load(r)
    if not isinstance(v, Vec):
        raise Unsupported('sort_by_key on %r' % (v,))
    keyed = []
    for i, e in enumerate(v.elems):
        k = call_callable(ex, args[1], [Ref(r.cell, r.path + (i,), False)])
        if isinstance(k, Bool):
            t = z3.simplify(k.t)
            if not (z3.is_true(t) or z3.is_false(t)):
                raise Unsupported('sort_by_key with a symbolic key')
            kv = 1 if z3.is_true(t) else 0
        elif isinstance(k, Int) and k.concrete() is not None:
            kv = k.concrete()
        else:
            raise Unsupported('sort_by_key with key %r' % (k,))
        keyed.append((kv, i, e))
    keyed.sort(key=lambda x: (x[0], x[1]))
    ex.store(r, Vec(tuple(e for _, _, e in keyed), v.ety))
    return UNIT


@stub('<* as Iterator>::flatten')
def iter_flatten(ex, args, callee):
    return Native('Flatten', args[0], fresh_id())


@stub('<* as Iterator>::enumerate')
def iter_enumerate(ex, args, callee):
    return Native('Enumerate', (args[0], 0))


@stub('<* as Iterator>::map')
def iter_map(ex, args, callee):
    return Native('Map', (args[0], args[1]))


@stub('<* as Iterator>::any')
def iter_any(ex, args, callee):
    r = args[0]
    clo = args[1]
    c = Cell(clo, 'any-closure')
    while True:
        itv = ex.load(r)
        it2, item = iter_next(ex, itv)
        ex.store(r, it2)
        if is_variant(item, 'None'):
            return FALSE
        res = call_closure(ex, clo, [Ref(c, (), True), Agg('tuple', '', None, (item.fields[0],))])
        if not isinstance(res, Bool):
            raise Unsupported('any(): closure returned %r' % (res,))
        if ex.choose_bool(res.t):
            return TRUE


@stub('<* as Iterator>::collect')
def iter_collect(ex, args, callee):
    itv = args[0]
    out = []
    while True:
        itv, item = iter_next(ex, itv)
        if is_variant(item, 'None'):
            break
        out.append(item.fields[0])
    m = re.search(r'collect::<Vec<(.*)>>$', callee.strip())
    return Vec(tuple(out), type_key(m.group(1)) if m else '')


# ----------------------------------------------------------------------------------
# formatting
# ----------------------------------------------------------------------------------

def fmt_target_append(ex, fref, s: Str):
    """Append to the output a Formatter writes into."""
    f = ex.load(fref)
    if not (isinstance(f, Native) and f.rty == 'Formatter'):
        raise Unsupported('not a Formatter: %r' % (f,))
    out_ref = f.state
    cur = as_str(ex, out_ref)
    ex.store(out_ref, Str(cur.pieces + s.pieces, cur.rty))


FMT_OK = ok(UNIT)


@stub('<str as Display>::fmt', '<String as Display>::fmt')
def str_display(ex, args, callee):
    fmt_target_append(ex, args[1], as_str(ex, args[0]))
    return FMT_OK


@stub('Formatter::write_str')
def formatter_write_str(ex, args, callee):
    fmt_target_append(ex, args[0], as_str(ex, args[1]))
    return FMT_OK


@stub('<Formatter as Write>::write_char', 'Formatter::write_char')
def formatter_write_char(ex, args, callee):
    ch = args[1].concrete()
    if ch is None:
        raise Unsupported('symbolic char')
    fmt_target_append(ex, args[0], lit(chr(ch)))
    return FMT_OK


def dec_atom(ex, v):
    """The decimal rendering of a number as an opaque atom (identity = type + value term)."""
    if isinstance(v, Int):
        t = z3.simplify(v.t)
        ln = ex.fresh('declen', 64)
        # canonical decimal of a <=64-bit integer: 1..=20 characters
        return Atom('dec', declen(v.ty, t), 'dec', (v.ty, t))
    if isinstance(v, Float):
        t = z3.simplify(v.bits)
        return Atom('dec', declen('f64', t), 'dec', ('f64', t))
    raise Unsupported('Display of %r' % (v,))


_declen_fns = {}


def declen(ty, term):
    """Uninterpreted length of the decimal rendering; constrained 1..=400 by `declen_axiom`."""
    bits = 64 if ty == 'f64' else INT_TYPES[ty][0]
    key = (ty, bits)
    if key not in _declen_fns:
        _declen_fns[key] = z3.Function('declen_' + ty, z3.BitVecSort(bits), z3.BitVecSort(64))
    return _declen_fns[key](term)


@stub('<i64 as Display>::fmt', '<u64 as Display>::fmt', '<i32 as Display>::fmt', '<u32 as Display>::fmt',
      '<f64 as Display>::fmt', '<usize as Display>::fmt', '<u8 as Display>::fmt', '<u16 as Display>::fmt',
      '<i8 as Display>::fmt', '<i16 as Display>::fmt', '<f32 as Display>::fmt', '<isize as Display>::fmt',
      '<u128 as Display>::fmt', '<i128 as Display>::fmt')
def num_display(ex, args, callee):
    v = ex.deref_all(args[0])
    f = ex.load(args[1])
    if isinstance(f, Native) and f.rty == 'Formatter' and getattr(f, 'ident', 0):
        raise Unsupported('number formatted with non-default format spec')
    a = dec_atom(ex, v)
    ex.assume(z3.And(z3.UGE(a.length, 1), z3.ULE(a.length, 400)))
    fmt_target_append(ex, args[1], Str((a,)))
    return FMT_OK


@stub('Argument::new_display')
def arg_new_display(ex, args, callee):
    return Native('FmtArg', ('display', args[0]))


@stub('Argument::new_debug')
def arg_new_debug(ex, args, callee):
    return Native('FmtArg', ('debug', args[0]))


@stub('Arguments::new')
def arguments_new(ex, args, callee):
    tmpl = ex.deref_all(args[0])
    arr = ex.deref_all(args[1])
    if not isinstance(tmpl, Str) or len(tmpl.norm()) != 1 or not isinstance(tmpl.norm()[0], bytes):
        raise Unsupported('format template is not a literal')
    return Native('FmtArguments', (tmpl.norm()[0], tuple(arr.elems)))


@stub('Arguments::from_str')
def arguments_from_str(ex, args, callee):
    s = as_str(ex, args[0])
    return Native('FmtArguments', (None, (s,)))


def run_template(ex, out_ref, fa):
    """Interpret rustc's format template byte-code.

    Observed encoding (rustc 1.97 nightly): a byte n < 0x80 is followed by n literal bytes;
    0xC0 is `{}` (next argument, default spec); 0x00 terminates. Anything else is reported
    as unsupported (a non-default format spec such as {:.3} uses other op-codes).
    """
    tmpl, fargs = fa.state
    if tmpl is None:
        cur = as_str(ex, out_ref)
        ex.store(out_ref, Str(cur.pieces + fargs[0].pieces, cur.rty))
        return
    i, n, ai = 0, len(tmpl), 0
    while i < n:
        b = tmpl[i]
        if b == 0:
            if i != n - 1:
                raise Unsupported('format template: data after terminator')
            break
        if b < 0x80:
            lit_bytes = tmpl[i + 1:i + 1 + b]
            cur = as_str(ex, out_ref)
            ex.store(out_ref, Str(cur.pieces + (bytes(lit_bytes),), cur.rty))
            i += 1 + b
            continue
        if b == 0xC0:
            if ai >= len(fargs):
                raise Unsupported('format template: not enough arguments')
            render_arg(ex, out_ref, fargs[ai])
            ai += 1
            i += 1
            continue
        raise Unsupported('format template op-code 0x%02x (non-default format spec?)' % b)
    else:
        raise Unsupported('format template: missing terminator')
    if ai != len(fargs):
        raise Unsupported('format template: unused arguments')


def render_arg(ex, out_ref, arg):
    kind, vref = arg.state
    fcell = Cell(Native('Formatter', out_ref), 'formatter')
    fref = Ref(fcell, (), True)
    v = ex.deref_all(vref)
    if kind == 'debug':
        raise Unsupported('Debug formatting in a checked path')
    # the value reference handed to Display::fmt is a reference to the value
    target = vref
    while isinstance(target, Ref) and isinstance(ex.load(target), Ref):
        target = ex.load(target)
    if isinstance(v, Str):
        res = str_display(ex, [v, fref], '<str as Display>::fmt')
    elif isinstance(v, (Int, Float)):
        res = num_display(ex, [v, fref], '<%s as Display>::fmt' % (v.ty,))
    else:
        ty = ex.rtype(v)
        name = ex.prog.find_impl_method('fmt', ty, 'Display')
        if name is None:
            raise Unsupported('no Display impl for ' + ty)
        res = ex.call(name, [target, fref])
    if not is_variant(res, 'Ok'):
        raise Unsupported('Display::fmt returned an error')


@stub('<String as Write>::write_fmt')
def string_write_fmt(ex, args, callee):
    run_template(ex, args[0], args[1])
    return FMT_OK


@stub('Formatter::write_fmt')
def formatter_write_fmt(ex, args, callee):
    f = ex.load(args[0])
    run_template(ex, f.state, args[1])
    return FMT_OK


@stub('format', 'fmt::format', 'alloc::fmt::format', 'std::fmt::format')
def fmt_format(ex, args, callee):
    c = Cell(Str((), 'String'), 'format-out')
    run_template(ex, Ref(c, (), True), args[0])
    return c.v


@stub('str::trim_end_matches')
def trim_end_matches(ex, args, callee):
    s = as_str(ex, args[0])
    ch = args[1]
    c = ch.concrete() if isinstance(ch, Int) else None
    if c is None:
        raise Unsupported('trim_end_matches with a non-char pattern')
    pat = chr(c).encode('utf-8')
    pieces = list(s.norm())
    # trailing literal bytes can be trimmed concretely; a trailing atom carries a trimming fact
    while pieces:
        last = pieces[-1]
        if isinstance(last, bytes):
            t = last
            while t.endswith(pat):
                t = t[:-len(pat)]
            if t:
                pieces[-1] = t
                break
            pieces.pop()
            continue
        # atom: must have been declared as "core ++ pat^k" by the harness
        core = getattr(ex, 'trim_map', {}).get((last.name, pat))
        if core is None:
            raise Unsupported('trim_end_matches on an opaque atom without a declared decomposition')
        pieces[-1:] = list(core)
        break
    return Str(tuple(pieces), 'str')


# ----------------------------------------------------------------------------------
# atomics (sequentially consistent interleaving semantics; the Ordering argument is
# recorded in the event log so that C18 can read it)
# ----------------------------------------------------------------------------------

def atomic_obj(ex, v):
    v = ex.deref_all(v)
    if isinstance(v, ArcV):
        v = v.cell.v.value.v
    if not (isinstance(v, Native) and v.rty == 'Atomic'):
        raise Unsupported('not an atomic: %r' % (v,))
    return v


def ordering_name(v):
    if isinstance(v, Native) and v.rty == 'Ordering':
        return v.state
    if isinstance(v, Agg) and v.kind == 'enum' and v.name == 'Ordering':
        return v.variant
    raise Unsupported('ordering operand %r' % (v,))


def new_atomic(init, label=''):
    return Native('Atomic', Cell(init, 'atomic:' + label), fresh_id())


@stub('Atomic::new')
def atomic_new(ex, args, callee):
    return new_atomic(args[0], callee)


@stub('Atomic::load')
def atomic_load(ex, args, callee):
    a = atomic_obj(ex, args[0])
    ex.events.append(('atomic', 'load', a.state.name, ordering_name(args[1])))
    hook = getattr(ex, 'atomic_hook', None)
    if hook:
        r = hook(ex, 'load', a, None, ordering_name(args[1]))
        if r is not None:
            return r
    return a.state.v


@stub('Atomic::store')
def atomic_store(ex, args, callee):
    a = atomic_obj(ex, args[0])
    ex.events.append(('atomic', 'store', a.state.name, ordering_name(args[2]), args[1]))
    hook = getattr(ex, 'atomic_hook', None)
    if hook:
        r = hook(ex, 'store', a, args[1], ordering_name(args[2]))
        if r is not None:
            return UNIT
    a.state.v = args[1]
    return UNIT


@stub('Atomic::fetch_add')
def atomic_fetch_add(ex, args, callee):
    a = atomic_obj(ex, args[0])
    ex.events.append(('atomic', 'fetch_add', a.state.name, ordering_name(args[2]), args[1]))
    hook = getattr(ex, 'atomic_hook', None)
    if hook:
        r = hook(ex, 'fetch_add', a, args[1], ordering_name(args[2]))
        if r is not None:
            return r
    old = a.state.v
    a.state.v = Int(old.t + args[1].t, old.ty)      # wrapping, as documented for fetch_add
    return old


@stub('Atomic::fetch_sub')
def atomic_fetch_sub(ex, args, callee):
    a = atomic_obj(ex, args[0])
    ex.events.append(('atomic', 'fetch_sub', a.state.name, ordering_name(args[2]), args[1]))
    old = a.state.v
    a.state.v = Int(old.t - args[1].t, old.ty)
    return old


@stub('<Arc as Default>::default')
def arc_default(ex, args, callee):
    m = re.match(r'^<Arc<(.*)> as Default>::default$', callee.strip())
    inner = type_key(m.group(1)) if m else ''
    if inner.startswith('Atomic<') or inner.startswith('AtomicU'):
        return arc_new(ex, [new_atomic(mk_int(0, 'u64'), 'default')], callee)
    raise Unsupported('Arc::default for ' + inner)


# ----------------------------------------------------------------------------------
# Option / Result combinators taking callables
# ----------------------------------------------------------------------------------

from .executor import call_callable


@stub('Option::map')
def option_map(ex, args, callee):
    v = args[0]
    if is_variant(v, 'Some'):
        return some(call_callable(ex, args[1], [v.fields[0]]))
    return NONE


@stub('str::trim_end', 'str::trim_start', 'str::trim', 'str::trim_start_matches', 'str::trim_matches')
def str_trim(ex, args, callee):
    """Abstract strings: either nothing is trimmed (same string) or the result is a strictly shorter, different string."""
    s0 = as_str(ex, args[0])
    if ex.choose([z3.BoolVal(True), z3.BoolVal(True)], free=True) == 0:
        return s0.as_type('str')
    n = ex.fresh('len_trimmed', 64)
    ex.assume(z3.ULT(n, s0.length()))
    return Str((Atom('trimmed#%d' % fresh_id(), n),), 'str')


@stub('cmp::min', 'cmp::max', '<usize as Ord>::min', '<usize as Ord>::max', '<u64 as Ord>::min', '<u64 as Ord>::max')
def cmp_min_max(ex, args, callee):
    a, b = args[0], args[1]
    if not (isinstance(a, Int) and isinstance(b, Int)):
        raise Unsupported('min/max of %r, %r' % (a, b))
    lt = (a.t < b.t) if a.signed else z3.ULT(a.t, b.t)
    is_min = callee.rstrip().endswith('min') or '::min::' in callee or '::min<' in callee.replace(' ', '')
    return Int(z3.If(lt, a.t, b.t) if is_min else z3.If(lt, b.t, a.t), a.ty)


@stub('mem::drop')
def mem_drop(ex, args, callee):
    ex.drop_value(args[0])
    return UNIT


@stub('OnceCell::new', 'OnceLock::new')
def oncecell_new(ex, args, callee):
    return Native('OnceCell', Cell(None, 'once-cell'), fresh_id())


@stub('OnceCell::get_or_init', 'OnceLock::get_or_init')
def oncecell_get_or_init(ex, args, callee):
    c = ex.deref_all(args[0])
    if not (isinstance(c, Native) and c.rty == 'OnceCell'):
        raise Unsupported('get_or_init on %r' % (c,))
    if c.state.v is None:
        c.state.v = Cell(call_callable(ex, args[1], []), 'once-value')
    return Ref(c.state.v, (), False)


@stub('OnceCell::get', 'OnceLock::get')
def oncecell_get(ex, args, callee):
    c = ex.deref_all(args[0])
    if not (isinstance(c, Native) and c.rty == 'OnceCell'):
        raise Unsupported('get on %r' % (c,))
    return NONE if c.state.v is None else some(Ref(c.state.v, (), False))


@stub('OnceCell::set', 'OnceLock::set')
def oncecell_set(ex, args, callee):
    c = ex.deref_all(args[0])
    if c.state.v is None:
        c.state.v = Cell(args[1], 'once-value')
        return ok(UNIT)
    return err(args[1])


@stub('mem::replace')
def mem_replace(ex, args, callee):
    old = ex.load(args[0])
    ex.store(args[0], args[1])
    return old


@stub('mem::swap')
def mem_swap(ex, args, callee):
    a, b = ex.load(args[0]), ex.load(args[1])
    ex.store(args[0], b)
    ex.store(args[1], a)
    return UNIT


@stub('Option::map_or')
def option_map_or(ex, args, callee):
    v = args[0]
    if is_variant(v, 'Some'):
        return call_callable(ex, args[2], [v.fields[0]])
    return args[1]


@stub('Option::map_or_else')
def option_map_or_else(ex, args, callee):
    v = args[0]
    if is_variant(v, 'Some'):
        return call_callable(ex, args[2], [v.fields[0]])
    return call_callable(ex, args[1], [])


@stub('Result::map_or')
def result_map_or(ex, args, callee):
    v = args[0]
    if is_variant(v, 'Ok'):
        return call_callable(ex, args[2], [v.fields[0]])
    return args[1]


@stub('Result::map_or_else')
def result_map_or_else(ex, args, callee):
    v = args[0]
    if is_variant(v, 'Ok'):
        return call_callable(ex, args[2], [v.fields[0]])
    return call_callable(ex, args[1], [v.fields[0]])


@stub('Option::and_then')
def option_and_then(ex, args, callee):
    v = args[0]
    if is_variant(v, 'Some'):
        return call_callable(ex, args[1], [v.fields[0]])
    return NONE


@stub('Option::ok_or_else')
def option_ok_or_else(ex, args, callee):
    v = args[0]
    if is_variant(v, 'Some'):
        return ok(v.fields[0])
    return err(call_callable(ex, args[1], []))


@stub('Option::unwrap_or_else')
def option_unwrap_or_else(ex, args, callee):
    v = args[0]
    if is_variant(v, 'Some'):
        return v.fields[0]
    return call_callable(ex, args[1], [])


@stub('Option::unwrap_or_default')
def option_unwrap_or_default(ex, args, callee):
    v = args[0]
    if is_variant(v, 'Some'):
        return v.fields[0]
    raise Unsupported('unwrap_or_default on None')


@stub('Option::filter')
def option_filter(ex, args, callee):
    v = args[0]
    if is_variant(v, 'Some'):
        c = Cell(v.fields[0], 'filter-arg')
        r = call_callable(ex, args[1], [Ref(c, (), False)])
        return v if ex.choose_bool(r.t) else NONE
    return NONE


@stub('Option::as_ref', 'Option::as_mut')
def option_as_ref(ex, args, callee):
    r = args[0]
    v = ex.load(r) if isinstance(r, Ref) else r
    if is_variant(v, 'Some'):
        return some(Ref(r.cell, r.path + (0,), r.mut))
    return NONE


@stub('Option::take')
def option_take(ex, args, callee):
    r = args[0]
    v = ex.load(r)
    ex.store(r, NONE)
    return v


@stub('Option::cloned', 'Option::copied')
def option_cloned(ex, args, callee):
    v = args[0]
    if is_variant(v, 'Some'):
        return some(ex.deref_all(v.fields[0]))
    return NONE


@stub('Result::map')
def result_map(ex, args, callee):
    v = args[0]
    if is_variant(v, 'Ok'):
        return ok(call_callable(ex, args[1], [v.fields[0]]))
    return v


@stub('Result::map_err')
def result_map_err(ex, args, callee):
    v = args[0]
    if is_variant(v, 'Err'):
        return err(call_callable(ex, args[1], [v.fields[0]]))
    return v


@stub('Result::and_then')
def result_and_then(ex, args, callee):
    v = args[0]
    if is_variant(v, 'Ok'):
        return call_callable(ex, args[1], [v.fields[0]])
    return v


@stub('Result::or_else')
def result_or_else(ex, args, callee):
    v = args[0]
    if is_variant(v, 'Err'):
        return call_callable(ex, args[1], [v.fields[0]])
    return v


@stub('Result::ok')
def result_ok(ex, args, callee):
    v = args[0]
    if is_variant(v, 'Ok'):
        return some(v.fields[0])
    ex.drop_value(v.fields[0])
    return NONE


@stub('Result::err')
def result_err(ex, args, callee):
    v = args[0]
    return some(v.fields[0]) if is_variant(v, 'Err') else NONE


@stub('Result::unwrap_or')
def result_unwrap_or(ex, args, callee):
    v = args[0]
    return v.fields[0] if is_variant(v, 'Ok') else args[1]


@stub('Result::unwrap_or_else')
def result_unwrap_or_else(ex, args, callee):
    v = args[0]
    return v.fields[0] if is_variant(v, 'Ok') else call_callable(ex, args[1], [v.fields[0]])


@stub('Result::as_ref')
def result_as_ref(ex, args, callee):
    r = args[0]
    v = ex.load(r)
    return Agg('enum', 'Result', v.variant, (Ref(r.cell, r.path + (0,), False),), v.vidx)


# ----------------------------------------------------------------------------------
# more iterator adaptors
# ----------------------------------------------------------------------------------

@stub('slice::iter_mut', 'Vec::iter_mut')
def slice_iter_mut(ex, args, callee):
    r = args[0]
    v = ex.deref_all(r)
    if not isinstance(v, Vec):
        raise Unsupported('iter_mut over %r' % (v,))
    while isinstance(r, Ref) and isinstance(ex.load(r), Ref):
        r = ex.load(r)
    return Native('SliceIter', (Ref(r.cell, r.path, True), 0, len(v.elems)))


def _drain(ex, r):
    """Generator over the remaining items of the iterator stored at reference r."""
    while True:
        itv = ex.load(r)
        it2, item = iter_next(ex, itv)
        ex.store(r, it2)
        if is_variant(item, 'None'):
            return
        yield item.fields[0]


@stub('<* as Iterator>::find')
def iter_find(ex, args, callee):
    r, pred = args[0], args[1]
    for item in _drain(ex, r):
        c = Cell(item, 'find-arg')
        res = call_callable(ex, pred, [Ref(c, (), False)])
        if ex.choose_bool(res.t):
            return some(item)
    return NONE


@stub('<* as Iterator>::position')
def iter_position(ex, args, callee):
    r, pred = args[0], args[1]
    for i, item in enumerate(_drain(ex, r)):
        res = call_callable(ex, pred, [item])
        if ex.choose_bool(res.t):
            return some(mk_int(i, 'usize'))
    return NONE


@stub('<* as Iterator>::all')
def iter_all(ex, args, callee):
    r, pred = args[0], args[1]
    for item in _drain(ex, r):
        res = call_callable(ex, pred, [item])
        if not ex.choose_bool(res.t):
            return FALSE
    return TRUE


@stub('<* as Iterator>::count')
def iter_count(ex, args, callee):
    if isinstance(args[0], Native) and args[0].rty == 'CharsIter':
        return chars_count(ex, args, callee)
    c = Cell(args[0], 'count-iter')
    return mk_int(sum(1 for _ in _drain(ex, Ref(c, (), True))), 'usize')


@stub('<* as Iterator>::for_each')
def iter_for_each(ex, args, callee):
    c = Cell(args[0], 'for-each-iter')
    for item in _drain(ex, Ref(c, (), True)):
        call_callable(ex, args[1], [item])
    return UNIT


@stub('<* as Iterator>::last')
def iter_last(ex, args, callee):
    c = Cell(args[0], 'last-iter')
    last = NONE
    for item in _drain(ex, Ref(c, (), True)):
        last = some(item)
    return last


@stub('<* as Iterator>::rev')
def iter_rev(ex, args, callee):
    itv = args[0]
    c = Cell(itv, 'rev-iter')
    items = list(_drain(ex, Ref(c, (), True)))
    return Native('VecIntoIter', (tuple(reversed(items)), 0))


@stub('<* as Iterator>::filter')
def iter_filter(ex, args, callee):
    c = Cell(args[0], 'filter-iter')
    out = []
    for item in _drain(ex, Ref(c, (), True)):
        cc = Cell(item, 'filter-arg')
        res = call_callable(ex, args[1], [Ref(cc, (), False)])
        if ex.choose_bool(res.t):
            out.append(item)
    return Native('VecIntoIter', (tuple(out), 0))


@stub('<* as Iterator>::cloned', '<* as Iterator>::copied')
def iter_cloned(ex, args, callee):
    c = Cell(args[0], 'cloned-iter')
    return Native('VecIntoIter', (tuple(ex.deref_all(i) for i in _drain(ex, Ref(c, (), True))), 0))


@stub('<* as Iterator>::chain')
def iter_chain(ex, args, callee):
    c1, c2 = Cell(args[0], 'chain-a'), Cell(into_iter(ex, [args[1]], callee), 'chain-b')
    items = list(_drain(ex, Ref(c1, (), True))) + list(_drain(ex, Ref(c2, (), True)))
    return Native('VecIntoIter', (tuple(items), 0))


@stub('<* as Iterator>::sum')
def iter_sum(ex, args, callee):
    c = Cell(args[0], 'sum-iter')
    tot = None
    for item in _drain(ex, Ref(c, (), True)):
        item = ex.deref_all(item)
        tot = item if tot is None else Int(tot.t + item.t, tot.ty)
    if tot is None:
        m = re.search(r'sum::<([a-z0-9]+)>', callee)
        return mk_int(0, m.group(1) if m else 'usize')
    return tot


_collect_plain = iter_collect


@stub('<* as Iterator>::collect', override=True)
def iter_collect2(ex, args, callee):
    m = re.search(r'collect::<(Option|Result)<Vec<(.*?)>(?:, (.*))?>>$', callee.strip())
    if not m:
        return _collect_plain(ex, args, callee)
    kind = m.group(1)
    itv = args[0]
    out = []
    while True:
        itv, item = iter_next(ex, itv)
        if is_variant(item, 'None'):
            break
        e = item.fields[0]
        if kind == 'Option':
            if is_variant(e, 'None'):
                return NONE
            out.append(e.fields[0])
        else:
            if is_variant(e, 'Err'):
                return e
            out.append(e.fields[0])
    v = Vec(tuple(out), type_key(m.group(2)))
    return some(v) if kind == 'Option' else ok(v)


# ----------------------------------------------------------------------------------
# equality on strings / options / error kinds
# ----------------------------------------------------------------------------------

def str_eq_term(ex, a: Str, b: Str):
    ka, kb = a.key(), b.key()
    if ka == kb:
        return z3.BoolVal(True)
    la = all(isinstance(p, bytes) for p in a.norm())
    lb = all(isinstance(p, bytes) for p in b.norm())
    if la and lb:
        return z3.BoolVal(False)
    k1, k2 = sorted([repr(ka), repr(kb)])
    import hashlib
    v = z3.Bool('streq_' + hashlib.sha1((k1 + '|' + k2).encode()).hexdigest()[:12])
    if not hasattr(ex, 'streq_vars'):
        ex.streq_vars = {}
    ex.streq_vars[v.decl().name()] = (a, b)
    # equal strings have equal lengths
    ex.assume(z3.Implies(v, a.length() == b.length()))
    return v


@stub('<str as PartialEq>::eq', '<String as PartialEq>::eq', '<&str as PartialEq>::eq', 'str::eq', '<[u8] as PartialEq>::eq')
def str_eq(ex, args, callee):
    return Bool(str_eq_term(ex, as_str(ex, args[0]), as_str(ex, args[1])))


@stub('<str as PartialEq>::ne', '<String as PartialEq>::ne')
def str_ne(ex, args, callee):
    return Bool(z3.Not(str_eq_term(ex, as_str(ex, args[0]), as_str(ex, args[1]))))


def value_eq(ex, a, b):
    a, b = ex.deref_all(a), ex.deref_all(b)
    if isinstance(a, Str) and isinstance(b, Str):
        return str_eq_term(ex, a, b)
    if isinstance(a, Int) and isinstance(b, Int):
        return a.t == b.t
    if isinstance(a, Bool) and isinstance(b, Bool):
        return a.t == b.t
    if isinstance(a, Native) and isinstance(b, Native) and a.rty == b.rty == 'ErrorKind':
        return a.state == b.state
    if isinstance(a, Agg) and isinstance(b, Agg):
        if a.kind == 'enum' and (a.variant != b.variant):
            return z3.BoolVal(False)
        if len(a.fields) != len(b.fields):
            return z3.BoolVal(False)
        cs = [value_eq(ex, x, y) for x, y in zip(a.fields, b.fields)]
        return z3.And(*cs) if cs else z3.BoolVal(True)
    if isinstance(a, Unit) and isinstance(b, Unit):
        return z3.BoolVal(True)
    raise Unsupported('equality of %r and %r' % (a, b))


@stub('<Option as PartialEq>::eq', '<ErrorKind as PartialEq>::eq', '<Result as PartialEq>::eq', '<* as PartialEq>::eq')
def generic_eq(ex, args, callee):
    return Bool(z3.simplify(value_eq(ex, args[0], args[1])))


@stub('<Option as PartialEq>::ne', '<ErrorKind as PartialEq>::ne', '<* as PartialEq>::ne')
def generic_ne(ex, args, callee):
    return Bool(z3.simplify(z3.Not(value_eq(ex, args[0], args[1]))))


# ----------------------------------------------------------------------------------
# more atomics
# ----------------------------------------------------------------------------------

@stub('Atomic::swap')
def atomic_swap(ex, args, callee):
    a = atomic_obj(ex, args[0])
    ex.events.append(('atomic', 'swap', a.state.name, ordering_name(args[2]), args[1]))
    old = a.state.v
    a.state.v = args[1]
    return old


@stub('Atomic::compare_exchange', 'Atomic::compare_exchange_weak')
def atomic_cas(ex, args, callee):
    a = atomic_obj(ex, args[0])
    hook = getattr(ex, 'atomic_hook', None)
    if hook:
        r = hook(ex, 'cas', a, (args[1], args[2]), (ordering_name(args[3]), ordering_name(args[4])))
        if r is not None:
            return r
    old = a.state.v
    eq = old.t == args[1].t if isinstance(old, Int) else old.t == args[1].t
    if ex.choose_bool(eq):
        ex.events.append(('atomic', 'cas-ok', a.state.name, ordering_name(args[3]), args[2]))
        a.state.v = args[2]
        return ok(old)
    ex.events.append(('atomic', 'cas-fail', a.state.name, ordering_name(args[4]), None))
    return err(old)


@stub('Atomic::fetch_or', 'Atomic::fetch_and', 'Atomic::fetch_max', 'Atomic::fetch_min', 'Atomic::fetch_xor')
def atomic_fetch_misc(ex, args, callee):
    a = atomic_obj(ex, args[0])
    op = norm_name(callee)
    ex.events.append(('atomic', op, a.state.name, ordering_name(args[2]), args[1]))
    old = a.state.v
    x, y = old.t, args[1].t
    if isinstance(old, Bool):
        new = Bool({'fetch_or': z3.Or(x, y), 'fetch_and': z3.And(x, y), 'fetch_xor': z3.Xor(x, y)}[op])
    else:
        new = Int({'fetch_or': x | y, 'fetch_and': x & y, 'fetch_xor': x ^ y,
                   'fetch_max': z3.If(z3.UGT(x, y), x, y), 'fetch_min': z3.If(z3.ULT(x, y), x, y)}[op], old.ty)
    a.state.v = new
    return old


def norm_name(callee):
    return strip_generics(callee).split('::')[-1]


@stub('Atomic::get_mut', 'Atomic::into_inner')
def atomic_into_inner(ex, args, callee):
    a = atomic_obj(ex, args[0])
    return a.state.v


# ----------------------------------------------------------------------------------
# f64 (IEEE semantics through z3's FP theory; values travel as their 64 bits)
# ----------------------------------------------------------------------------------

def fp(v):
    return z3.fpBVToFP(v.bits, z3.Float64())


def fp_result(t):
    return Float(z3.fpToIEEEBV(t))


@stub('f64::fract')
def f64_fract(ex, args, callee):
    x = fp(args[0])
    return fp_result(z3.fpSub(z3.RNE(), x, z3.fpRoundToIntegral(z3.RTZ(), x)))


@stub('f64::trunc')
def f64_trunc(ex, args, callee):
    return fp_result(z3.fpRoundToIntegral(z3.RTZ(), fp(args[0])))


@stub('f64::floor')
def f64_floor(ex, args, callee):
    return fp_result(z3.fpRoundToIntegral(z3.RTN(), fp(args[0])))


@stub('f64::ceil')
def f64_ceil(ex, args, callee):
    return fp_result(z3.fpRoundToIntegral(z3.RTP(), fp(args[0])))


@stub('f64::round')
def f64_round(ex, args, callee):
    return fp_result(z3.fpRoundToIntegral(z3.RNA(), fp(args[0])))


@stub('f64::abs')
def f64_abs(ex, args, callee):
    return Float(args[0].bits & z3.BitVecVal((1 << 63) - 1, 64))


@stub('f64::is_nan')
def f64_is_nan(ex, args, callee):
    return Bool(z3.fpIsNaN(fp(args[0])))


@stub('f64::is_finite')
def f64_is_finite(ex, args, callee):
    x = fp(args[0])
    return Bool(z3.Not(z3.Or(z3.fpIsNaN(x), z3.fpIsInf(x))))


@stub('f64::is_infinite')
def f64_is_infinite(ex, args, callee):
    return Bool(z3.fpIsInf(fp(args[0])))


@stub('f64::is_sign_negative')
def f64_is_sign_negative(ex, args, callee):
    return Bool(z3.Extract(63, 63, args[0].bits) == 1)


@stub('f64::is_sign_positive')
def f64_is_sign_positive(ex, args, callee):
    return Bool(z3.Extract(63, 63, args[0].bits) == 0)


@stub('f64::to_bits')
def f64_to_bits(ex, args, callee):
    return Int(args[0].bits, 'u64')


@stub('f64::from_bits')
def f64_from_bits(ex, args, callee):
    return Float(args[0].t)


# ----------------------------------------------------------------------------------
# integer helper methods (core::num)
# ----------------------------------------------------------------------------------

def _int_method(callee):
    """'core::num::<impl u64>::checked_mul' -> ('u64', 'checked_mul')"""
    m = re.search(r'<impl ([a-z0-9]+)>::([a-z_0-9]+)', callee) or re.search(r'^([a-z0-9]+)::([a-z_0-9]+)$', strip_generics(callee))
    if not m:
        raise Unsupported('integer method ' + callee)
    return m.group(1), m.group(2)


def _ovf(ex, op, a, b):
    from .executor import Frame
    fr = Frame.__new__(Frame)
    fr.ex = ex
    r = Frame.binop(fr, op, a, b)
    return r.fields[0], r.fields[1]


def int_method(ex, args, callee):
    ty, meth = _int_method(callee)
    a = args[0]
    b = args[1] if len(args) > 1 else None
    base = {'add': 'AddWithOverflow', 'sub': 'SubWithOverflow', 'mul': 'MulWithOverflow'}
    kind, _, op = meth.partition('_')
    if kind == 'checked' and op in base:
        v, o = _ovf(ex, base[op], a, b)
        return NONE if ex.choose_bool(o.t) else some(v)
    if kind == 'wrapping' and op in base:
        v, o = _ovf(ex, base[op], a, b)
        return v
    if kind == 'overflowing' and op in base:
        v, o = _ovf(ex, base[op], a, b)
        return Agg('tuple', '', None, (v, o))
    if kind == 'saturating' and op in base:
        v, o = _ovf(ex, base[op], a, b)
        bits, signed = INT_TYPES[a.ty]
        if signed:
            raise Unsupported('signed saturating arithmetic')
        sat = z3.BitVecVal((1 << bits) - 1, bits) if op in ('add', 'mul') else z3.BitVecVal(0, bits)
        return Int(z3.If(o.t, sat, v.t), a.ty)
    if meth in ('min', 'max'):
        lt = (a.t < b.t) if a.signed else z3.ULT(a.t, b.t)
        return Int(z3.If(lt, a.t, b.t) if meth == 'min' else z3.If(lt, b.t, a.t), a.ty)
    if meth == 'checked_div':
        if ex.choose_bool(b.t == 0):
            return NONE
        return some(Int(z3.UDiv(a.t, b.t) if not a.signed else a.t / b.t, a.ty))
    if meth == 'abs_diff':
        lt = z3.ULT(a.t, b.t)
        return Int(z3.If(lt, b.t - a.t, a.t - b.t), a.ty)
    if meth in ('ilog10', 'ilog2', 'checked_ilog10', 'checked_ilog2'):
        bits, signed = INT_TYPES[a.ty]
        nonpos = (a.t <= 0) if signed else (a.t == 0)
        if ex.choose_bool(nonpos):
            if meth.startswith('checked'):
                return NONE
            panic(ex, ('ilog-of-zero', callee))
        # the logarithm itself: an opaque function of the argument, bounded by the bit width
        r = ex.fresh('ilog', 32)
        ex.assume(z3.ULE(r, 19 if meth.endswith('10') else bits - 1))
        v = Int(r, 'u32')
        return some(v) if meth.startswith('checked') else v
    if meth == 'pow' or meth == 'leading_zeros' or meth == 'count_ones':
        raise Unsupported('integer method ' + meth)
    raise Unsupported('integer method %s::%s' % (ty, meth))


for _t in ('u8', 'u16', 'u32', 'u64', 'u128', 'usize', 'i8', 'i16', 'i32', 'i64', 'i128', 'isize'):
    for _m in ('checked_add', 'checked_sub', 'checked_mul', 'checked_div', 'wrapping_add', 'wrapping_sub', 'wrapping_mul',
               'saturating_add', 'saturating_sub', 'saturating_mul', 'overflowing_add', 'overflowing_sub', 'overflowing_mul',
               'min', 'max', 'abs_diff', 'ilog10', 'ilog2', 'checked_ilog10', 'checked_ilog2'):
        REG['%s::%s' % (_t, _m)] = int_method
        REG['num::%s' % _m] = int_method


@stub('<u64 as TryFrom>::try_from', '<u32 as TryFrom>::try_from', '<usize as TryFrom>::try_from', '<i64 as TryFrom>::try_from',
      '<u16 as TryFrom>::try_from', '<u8 as TryFrom>::try_from', '<i32 as TryFrom>::try_from',
      '<u128 as TryInto>::try_into', '<u64 as TryInto>::try_into', '<usize as TryInto>::try_into', '<i64 as TryInto>::try_into',
      '<u32 as TryInto>::try_into', '<i128 as TryInto>::try_into')
def int_try_from(ex, args, callee):
    m = re.match(r'^<([a-z0-9]+) as (TryFrom|TryInto)<([a-z0-9]+)>>', callee.strip())
    if not m:
        raise Unsupported('try_from ' + callee)
    a, kind, b = m.groups()
    tgt = a if kind == 'TryFrom' else b
    v = args[0]
    tb, ts = INT_TYPES[tgt]
    from .executor import _int_cast
    cast = _int_cast(v, tgt)
    back = _int_cast(cast, v.ty)
    fits = back.t == v.t
    if v.signed != ts:
        # sign must be non-negative on both sides
        fits = z3.And(fits, z3.Extract(v.bits - 1, v.bits - 1, v.t) == 0, z3.Extract(tb - 1, tb - 1, cast.t) == 0)
    if ex.choose_bool(fits):
        return ok(cast)
    return err(Agg('struct', 'TryFromIntError', None, ()))


@stub('<Option as FromResidual>::from_residual')
def option_from_residual(ex, args, callee):
    return NONE


@stub('<Option as Default>::default')
def option_default(ex, args, callee):
    return NONE


@stub('<bool as Default>::default')
def bool_default(ex, args, callee):
    return FALSE


@stub('<usize as Default>::default')
def usize_default(ex, args, callee):
    return mk_int(0, 'usize')


@stub('<String as Default>::default')
def string_default(ex, args, callee):
    return Str((), 'String')


@stub('<Vec as Default>::default')
def vec_default(ex, args, callee):
    return Vec((), '')


def _next_pow2(ex, args, callee):
    a = args[0]
    bits = a.bits
    t = z3.BitVecVal(1, bits)
    res = z3.BitVecVal(0, bits)      # overflow case: debug builds panic; the result is irrelevant there
    for k in range(bits - 1, -1, -1):
        p = z3.BitVecVal(1 << k, bits)
        res = z3.If(z3.ULE(a.t, p), p, res)
    return Int(res, a.ty)


for _t in ('usize', 'u64', 'u32'):
    REG['%s::next_power_of_two' % _t] = _next_pow2


@stub('UnsafeCell::new')
def unsafe_cell_new(ex, args, callee):
    c = Cell(args[0], 'unsafe-cell')
    c.tracked = True
    return Native('UnsafeCell', c, fresh_id())


@stub('<UnsafeCell as Default>::default')
def unsafe_cell_default(ex, args, callee):
    m = re.match(r'^<(?:std::cell::|core::cell::)?UnsafeCell<(.*)> as (?:std::default::|core::default::)?Default>::default$', callee.strip())
    inner = m.group(1).strip() if m else ''
    if not re.match(r'^(std::option::|core::option::)?Option<', inner):
        raise Unsupported('UnsafeCell<%s>::default' % inner)
    c = Cell(NONE, 'unsafe-cell')
    c.tracked = True
    return Native('UnsafeCell', c, fresh_id())


@stub('<Atomic as Default>::default', '<AtomicUsize as Default>::default')
def atomic_default(ex, args, callee):
    if 'Bool' in callee:
        return new_atomic(FALSE, callee)
    m = re.search(r'Atomic(U|I)(size|8|16|32|64)', callee)
    ty = ('u' if m.group(1) == 'U' else 'i') + m.group(2) if m else 'usize'
    return new_atomic(mk_int(0, ty), callee)


@stub('UnsafeCell::get')
def unsafe_cell_get(ex, args, callee):
    u = ex.deref_all(args[0])
    if not (isinstance(u, Native) and u.rty == 'UnsafeCell'):
        raise Unsupported('UnsafeCell::get on %r' % (u,))
    u.state.tracked = True
    return Native('rawptr', Ref(u.state, (), True), u.ident)


@stub('<Option as Clone>::clone')
def option_clone(ex, args, callee):
    v = ex.deref_all(args[0])
    if is_variant(v, 'Some'):
        inner = v.fields[0]
        if isinstance(inner, ArcV):
            return some(arc_clone(ex, [inner], callee))
        return v
    return NONE


@stub('catch_unwind', 'panic::catch_unwind', 'std::panic::catch_unwind')
def catch_unwind(ex, args, callee):
    f = args[0]
    if isinstance(f, Agg) and f.name == 'AssertUnwindSafe':
        f = f.fields[0]
    try:
        r = call_callable(ex, f, [])
    except Unwinding as u:
        return err(BoxV(Cell(Native('PanicPayload', u.payload, fresh_id()), 'panic-payload')))
    return ok(r)


@stub('<AssertUnwindSafe as FnOnce>::call_once', '<AssertUnwindSafe as Deref>::deref')
def assert_unwind_safe_call(ex, args, callee):
    f = ex.deref_all(args[0])
    if isinstance(f, Agg) and f.name == 'AssertUnwindSafe':
        f = f.fields[0]
    if 'call_once' in callee:
        return call_callable(ex, f, [])
    return f


def _tls_init_fn(ex, key_name):
    """The `__rust_std_internal_init_fn` the `thread_local!` expansion emits right after the key constant."""
    names = list(ex.prog.funcs)
    if key_name not in ex.prog.funcs:
        raise Unsupported('thread-local key %s not found' % key_name)
    i = names.index(key_name)
    for n in names[i + 1:i + 4]:
        if re.sub(r'#\d+$', '', n).endswith('__rust_std_internal_init_fn'):
            return n
        if re.sub(r'#\d+$', '', n).endswith('__RUST_STD_INTERNAL_INIT'):
            return n            # `const { .. }` initialiser: a const item, evaluated like any other
    raise Unsupported('initialiser of thread-local %s not found (const-initialised or unusual thread_local! form)' % key_name)


@stub('LocalKey::with', 'LocalKey::try_with')
def localkey_with(ex, args, callee):
    key = ex.deref_all(args[0])
    if not (isinstance(key, Native) and key.rty == 'LocalKey'):
        raise Unsupported('LocalKey::with on %r' % (key,))
    tls = ex.out.setdefault('tls', {})
    if key.state not in tls:
        # first access on this thread: run the initialiser (one thread per explored path)
        ex.stats.stubs.add('thread_local!(%s): per-thread slot, lazily initialised on first access' % key.state)
        init = _tls_init_fn(ex, key.state)
        if ex.prog.funcs[init].kind == 'fn':
            v0 = ex.call(init, [])
        else:
            from .executor import Frame
            v0 = Frame(ex, ex.prog.funcs[init]).run([])
        tls[key.state] = Cell(v0, 'tls:' + key.state)
    r = call_callable(ex, args[1], [Ref(tls[key.state], (), False)])
    return ok(r) if 'try_with' in callee else r


@stub('Arc::downgrade')
def arc_downgrade(ex, args, callee):
    a = ex.deref_all(args[0])
    if not isinstance(a, ArcV):
        raise Unsupported('Arc::downgrade of %r' % (a,))
    return Native('Weak', a, fresh_id())


@stub('Weak::upgrade')
def weak_upgrade(ex, args, callee):
    w = ex.deref_all(args[0])
    if not (isinstance(w, Native) and w.rty == 'Weak'):
        raise Unsupported('Weak::upgrade of %r' % (w,))
    a = w.state
    inner = a.cell.v
    if getattr(ex, 'oracle', False):
        label = inner.label if isinstance(inner, ArcInner) else 'Arc<?>'
        k = ex.nondet(2, 'upgrade')
        ex.ops.append({'kind': 'arc_upgrade', 'out': ['some', 'none'][k], 'label': label})
        return some(a) if k == 0 else NONE
    if isinstance(inner, ArcInner) and inner.strong > 0:
        a.cell.v = ArcInner(inner.value, inner.strong + 1, inner.label)
        return some(a)
    return NONE


@stub('<Weak as Clone>::clone')
def weak_clone(ex, args, callee):
    return ex.deref_all(args[0])


@stub('Vec::dedup_by')
def vec_dedup_by(ex, args, callee):
    r = args[0]
    v = ex.load(r)
    out = []
    for e in v.elems:
        if out:
            ca, cb = Cell(e, 'dedup-a'), Cell(out[-1], 'dedup-b')
            same = call_callable(ex, args[1], [Ref(ca, (), True), Ref(cb, (), True)])
            if ex.choose_bool(same.t):
                continue
        out.append(e)
    ex.store(r, Vec(tuple(out), v.ety))
    return UNIT


@stub('Vec::retain')
def vec_retain(ex, args, callee):
    r = args[0]
    v = ex.load(r)
    out = []
    for e in v.elems:
        c = Cell(e, 'retain-arg')
        keep = call_callable(ex, args[1], [Ref(c, (), False)])
        if ex.choose_bool(keep.t):
            out.append(e)
    ex.store(r, Vec(tuple(out), v.ety))
    return UNIT


@stub('Vec::clear')
def vec_clear(ex, args, callee):
    r = args[0]
    v = ex.load(r)
    if isinstance(v, Str):
        ex.store(r, Str((), v.rty))
    else:
        ex.store(r, Vec((), v.ety))
    return UNIT


@stub('slice::first', 'slice::last', 'Vec::first', 'Vec::last')
def slice_first_last(ex, args, callee):
    r = args[0]
    v = ex.deref_all(r)
    while isinstance(r, Ref) and isinstance(ex.load(r), Ref):
        r = ex.load(r)
    if not v.elems:
        return NONE
    i = 0 if callee.rstrip().endswith('first') else len(v.elems) - 1
    return some(Ref(r.cell, r.path + (i,), False))


_nchars_fn = z3.Function('nchars', z3.BitVecSort(64), z3.BitVecSort(64))


@stub('str::chars')
def str_chars(ex, args, callee):
    return Native('CharsIter', as_str(ex, args[0]), fresh_id())


def chars_count(ex, args, callee):
    it = args[0]
    s = it.state
    ln = s.length()
    n = ex.fresh('nchars', 64)
    # a UTF-8 string of len bytes has between ceil(len/4) and len characters
    ex.assume(z3.And(z3.ULE(n, ln), z3.UGE(n * 4, ln)))
    return Int(n, 'usize')


@stub('Option::or')
def option_or(ex, args, callee):
    return args[0] if is_variant(args[0], 'Some') else args[1]


@stub('Option::or_else')
def option_or_else(ex, args, callee):
    return args[0] if is_variant(args[0], 'Some') else call_callable(ex, args[1], [])


@stub('Option::and')
def option_and(ex, args, callee):
    return args[1] if is_variant(args[0], 'Some') else NONE


@stub('Option::xor')
def option_xor(ex, args, callee):
    a, b = is_variant(args[0], 'Some'), is_variant(args[1], 'Some')
    return args[0] if a and not b else (args[1] if b and not a else NONE)
