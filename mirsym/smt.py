"""Solver portfolio.

Queries are first tried on z3 (Python API, incremental, short timeout). 64-bit adder /
comparison chains that stall z3's bit-blaster (measured: 15-47 s on the writer invariant)
are re-decided by cvc5 with int-blasting (`--solve-bv-as-int=sum`, 0.01 s on the same
query), which keeps the mod-2^64 semantics. In the thorough tier (`cross_check=True`) every
property obligation is also written out as SMT-LIB2 and decided by the other solver;
a disagreement or an `(error` line makes the run INCONCLUSIVE.
"""
import os
import re
import subprocess
import tempfile
import time
import z3

from .mirparse import Unsupported

CVC5 = os.environ.get('VERIF_CVC5', 'cvc5')
Z3_OLD = os.environ.get('VERIF_Z3_BIN', '/usr/bin/z3')


def _has_fp(e):
    try:
        return 'fp.' in e.sexpr() or 'to_fp' in e.sexpr()
    except Exception:
        return False


def _res(r):
    if r == z3.sat:
        return 'sat'
    if r == z3.unsat:
        return 'unsat'
    return 'unknown'


class SolverDisagreement(Exception):
    pass


class ModelView:
    """Uniform model access for z3 models and parsed cvc5 models."""

    def __init__(self, z3model=None, values=None):
        self.z3model = z3model
        self.values = values       # name -> python int / bool

    def eval(self, term, model_completion=True):
        if self.z3model is not None:
            return self.z3model.eval(term, model_completion=model_completion)
        subs = []
        for d in _consts(term):
            name = d.decl().name()
            val = self.values.get(name)
            if z3.is_bv(d):
                subs.append((d, z3.BitVecVal(val or 0, d.size())))
            elif z3.is_bool(d):
                subs.append((d, z3.BoolVal(bool(val))))
        return z3.simplify(z3.substitute(term, *subs)) if subs else z3.simplify(term)

    def __getitem__(self, t):
        return self.eval(t)


def _consts(term):
    seen, out, stack = set(), [], [term]
    while stack:
        t = stack.pop()
        if t.get_id() in seen:
            continue
        seen.add(t.get_id())
        if z3.is_const(t) and t.decl().kind() == z3.Z3_OP_UNINTERPRETED:
            out.append(t)
        else:
            stack.extend(t.children())
    return out


class Smt:
    def __init__(self, quick_ms=1500, timeout_ms=60000, seed=0, cross_check=False):
        self.quick_ms = quick_ms
        self.timeout_ms = timeout_ms
        self.seed = seed
        self.cross_check = cross_check
        self.z3 = z3.Solver()
        self.assertions = []
        self.counts = {'z3': 0, 'cvc5-intblast': 0, 'z3-long': 0, 'cross': 0}
        self.time = {'z3': 0.0, 'cvc5-intblast': 0.0, 'z3-long': 0.0, 'cross': 0.0}
        self._configure()

    def _configure(self):
        self.z3.set('timeout', self.quick_ms)
        if self.seed:
            self.z3.set('random_seed', self.seed)

    def reset(self):
        self.z3.reset()
        self._configure()
        self.assertions = []

    def add(self, e):
        self.assertions.append(e)
        self.z3.add(e)

    # -- SMT-LIB export -----------------------------------------------------------------
    def smtlib(self, extra, produce_models=False):
        s = z3.Solver()
        for a in self.assertions:
            s.add(a)
        for e in extra:
            s.add(e)
        head = '(set-logic ALL)\n'
        if produce_models:
            head = '(set-option :produce-models true)\n' + head
        body = s.sexpr()
        # z3 prints divisions whose divisor it knows to be non-zero with internal names; they equal the SMT-LIB operators there
        for op in ('bvudiv', 'bvurem', 'bvsdiv', 'bvsrem', 'bvsmod'):
            body = body.replace(op + '_i ', op + ' ')
        return head + body + '\n(check-sat)\n' + ('(get-model)\n' if produce_models else '')

    def _run_external(self, cmd, text, timeout_s):
        with tempfile.NamedTemporaryFile('w', suffix='.smt2', delete=False, dir=os.environ.get('VERIF_SCRATCH', None)) as f:
            f.write(text)
            path = f.name
        try:
            r = subprocess.run(cmd + [path], capture_output=True, text=True, timeout=timeout_s)
            out = r.stdout + r.stderr
        except subprocess.TimeoutExpired:
            out = 'unknown'
        finally:
            os.unlink(path)
        if '(error' in out:
            return 'error', out
        first = out.strip().split('\n')[0].strip() if out.strip() else 'unknown'
        if first not in ('sat', 'unsat', 'unknown'):
            return 'error', out
        return first, out

    def cvc5_intblast(self, extra, models=False):
        text = self.smtlib(extra, models)
        cmd = [CVC5, '--lang', 'smt2', '--solve-bv-as-int=sum', '--tlimit=%d' % self.timeout_ms]
        if models:
            cmd.append('--produce-models')
        return self._run_external(cmd, text, self.timeout_ms / 1000 + 5)

    def z3_old(self, extra):
        return self._run_external([Z3_OLD, '-T:%d' % max(1, self.timeout_ms // 1000)], self.smtlib(extra), self.timeout_ms / 1000 + 5)

    # -- queries -------------------------------------------------------------------------
    def check(self, extra=(), important=False):
        """Return 'sat' | 'unsat' | 'unknown'."""
        t_all = time.time()
        try:
            return self._check(extra, important)
        finally:
            if os.environ.get('VERIF_TRACE') and time.time() - t_all > 2:
                import traceback
                with open(os.environ['VERIF_TRACE'], 'a') as fh:
                    fh.write('SLOW %.1fs pid=%d asserts=%d %s\n' % (time.time() - t_all, os.getpid(), len(self.assertions),
                                                                   ' <- '.join('%s:%d' % (f.name, f.lineno) for f in traceback.extract_stack()[-6:-1])))

    def _check(self, extra=(), important=False):
        t0 = time.time()
        self.z3.push()
        for e in extra:
            self.z3.add(e)
        r = self.z3.check()
        self.z3.pop()
        self.counts['z3'] += 1
        self.time['z3'] += time.time() - t0
        res = _res(r)
        if res == 'unknown':
            has_fp = any(_has_fp(e) for e in list(extra) + self.assertions[-40:])
            if not has_fp:
                t1 = time.time()
                res, out = self.cvc5_intblast(extra)
                self.counts['cvc5-intblast'] += 1
                self.time['cvc5-intblast'] += time.time() - t1
                if res == 'error':
                    res = 'unknown'
            if res == 'unknown':
                t2 = time.time()
                s = z3.Solver()
                s.set('timeout', self.timeout_ms)
                for a in self.assertions:
                    s.add(a)
                for e in extra:
                    s.add(e)
                rr = s.check()
                res = _res(rr)
                self.counts['z3-long'] += 1
                self.time['z3-long'] += time.time() - t2
        elif important and self.cross_check and not any(_has_fp(e) for e in list(extra) + self.assertions[-40:]):
            t1 = time.time()
            res2, out = self.cvc5_intblast(extra)
            self.counts['cross'] += 1
            self.time['cross'] += time.time() - t1
            if res2 in ('sat', 'unsat') and res2 != res:
                raise SolverDisagreement('z3 says %s, cvc5 (int-blasting) says %s' % (res, res2))
            if res2 == 'error':
                raise SolverDisagreement('cvc5 reported an error: ' + out[:200])
        return res

    def model(self, extra=()):
        s = z3.Solver()
        s.set('timeout', self.quick_ms * 4)
        for a in self.assertions:
            s.add(a)
        for e in extra:
            s.add(e)
        r = s.check()
        if r == z3.sat:
            return ModelView(z3model=s.model())
        if r == z3.unsat:
            return None
        res, out = self.cvc5_intblast(extra, models=True)
        if res != 'sat':
            s.set('timeout', self.timeout_ms)
            if s.check() == z3.sat:
                return ModelView(z3model=s.model())
            return None
        vals = {}
        for m in re.finditer(r'\(define-fun (\S+) \(\) (\(_ BitVec \d+\)|Bool) (#x[0-9a-fA-F]+|#b[01]+|true|false)\)', out):
            name, sort, val = m.groups()
            name = name.strip('|')
            if val.startswith('#x'):
                vals[name] = int(val[2:], 16)
            elif val.startswith('#b'):
                vals[name] = int(val[2:], 2)
            else:
                vals[name] = (val == 'true')
        return ModelView(values=vals)
