"""C05, C06, C07, C19: the buffered line writer. See DESIGN.md §5 (C05/C06/C07/C19)."""
import json
import os
import time

from . import dump, replay
from . import writer_model as wm
from .mirparse import Unsupported

PROPS = ('C05', 'C06', 'C07', 'C19')

ASSUMPTIONS = [
    'underlying writer is all-or-nothing per call: Ok(len) or Err(e) (datagram semantics); its flush() returns Ok',
    'std::io::BufWriter behaves as the algorithmic stub (write/write_cold/flush_buf/flush/Drop), validated against the real std type on an exhaustive small domain at every run',
    'at most 2 consecutive ErrorKind::Interrupted results inside one BufWriter::flush_buf (longer retry chains cut)',
    'metrics are non-empty (len >= 1); capacity and every length <= isize::MAX; event counters < 2^63',
    'allocation never fails',
]


def _stats_sum(stats_list):
    tot = {'total': 0, 'sat': 0, 'unsat': 0, 'unknown': 0}
    t = 0.0
    fns, stubs, steps, paths = set(), set(), 0, 0
    backend = {}
    for s in stats_list:
        tot['total'] += s.queries
        tot['sat'] += s.sat
        tot['unsat'] += s.unsat
        tot['unknown'] += s.unknown
        t += s.solver_time
        fns |= set(s.functions)
        stubs |= set(s.stubs)
        steps += s.steps
        paths += s.paths
        for k, v in (getattr(s, 'backend', None) or {}).items():
            backend[k] = backend.get(k, 0) + v
    return tot, t, fns, stubs, steps, paths, backend


JOB_ERRORS = []


def _merge_jobs(res, tot, fns, stubs, backend):
    hist = obl = steps = 0
    t = 0.0
    for r in res:
        if 'error' in r:
            # an undecided job makes the run inconclusive - unless another job's finding is confirmed natively
            JOB_ERRORS.append('bounded-history job %s: %s' % (r.get('opseq'), r['error']))
            r.setdefault('findings', [])
            continue
        hist += r['histories']
        obl += r['obligations']
        steps += r.get('steps', 0)
        tot['total'] += r['queries']
        tot['sat'] += r['sat']
        tot['unsat'] += r['unsat']
        tot['unknown'] += r['unknown']
        t += r['solver_time']
        fns |= set(r['functions'])
        stubs |= set(r['stubs'])
        for k, v in (r.get('backend') or {}).items():
            backend[k] = backend.get(k, 0) + v
    return hist, obl, steps, t


def run(out, replay_path=None, with_sinks=True):
    pid = out.pid
    thorough = out.tier == 'thorough'
    if replay_path:
        sc = json.load(open(replay_path))
        res = replay.run_scenarios([sc])[0]
        hit = [v for v in res.get('violations', []) if v['prop'] == pid]
        out.evidence = {'coverage': {'traces_validated_against_impl': 1, 'samples': [sc], 'explanation': 'replay only'}}
        if hit:
            out.violations.append({'key': None, 'what': hit[0]['detail'], 'scenario': sc, 'native': hit})
        return

    prog, dinfo = dump.dump_mir()
    timeout_ms = 600000 if thorough else 60000
    del JOB_ERRORS[:]

    # ---- preflight: the BufWriter stub against the real std type ---------------------------
    targs = ['bufwriter', 4, 3, 4] if thorough else ['bufwriter', 3, 2, 4]
    tab = replay.table(targs)
    nrows, mism = wm.bufwriter_model_diff(prog, tab)
    if mism:
        raise Unsupported('BufWriter stub disagrees with the real std::io::BufWriter on %d of %d cases, e.g. %s' % (
            len(mism), nrows, json.dumps(mism[0])[:400]))

    # ---- proof obligations: base case + one inductive step per operation --------------------
    find1, info1 = wm.inductive(prog, timeout_ms=timeout_ms, seed=out.seed)
    tot, st, fns, stubs, steps, paths, backend = _stats_sum(info1['stats'])
    obligations = info1['obligations']
    samples = []
    for op, n in info1['paths'].items():
        samples.append({'obligation_family': 'inductive step of %s from an arbitrary state satisfying Inv' % op,
                        'paths': n, 'vacuity_witness': 'at least one feasible path reached the assertions (sat)'})

    # ---- bounded histories from the real constructor ---------------------------------------
    K0, F0 = (4, 2) if thorough else (2, 1)
    res0 = wm.bmc_parallel(prog, K0, F0, timeout_ms=timeout_ms, seed=out.seed, start='init')
    h0, o0, s0, t0 = _merge_jobs(res0, tot, fns, stubs, backend)
    obligations += o0
    steps += s0
    st += t0
    jobs = [('init', K0, F0, res0)]
    if thorough:
        resk = wm.bmc_parallel(prog, 3, 1, timeout_ms=timeout_ms, seed=out.seed, start='inv')
        hk, ok_, sk, tk = _merge_jobs(resk, tot, fns, stubs, backend)
        obligations += ok_
        steps += sk
        st += tk
        h0 += hk
        jobs.append(('inv', 3, 1, resk))

    def collect(joblist):
        scs = []
        for start, K, F, res in joblist:
            for r in res:
                for f in r['findings']:
                    scs.append((f, r['opseq'], start))
        return scs

    m_findings = [f for f in find1]
    scen = collect(jobs)
    inductive_broken = bool(m_findings)
    confirmed = []
    replayed = 0
    tried = set()

    def try_replay():
        """Replay the scenarios not tried yet: those claimed for this property first, then the others (a history
        found for another clause may also break this property)."""
        nonlocal replayed
        claimed = [x for x in scen if x[0]['prop'] == pid]
        ordered = claimed + [x for x in scen if x[0]['prop'] != pid]
        todo = []
        for x in ordered:
            if x[0]['scenario'] is None:
                continue
            k = json.dumps(x[0]['scenario'], sort_keys=True, default=str)
            if k not in tried:
                tried.add(k)
                todo.append(x)
        todo = todo[:60]
        if not todo:
            return
        for prof in (['dev', 'release'] if thorough else ['dev']):
            outs = replay.run_scenarios([x[0]['scenario'] for x in todo], profile=prof)
            replayed += len(todo)
            for (f, opseq, start), o in zip(todo, outs):
                hit = [v for v in o.get('violations', []) if v['prop'] == pid]
                if hit:
                    confirmed.append((f, o, hit, prof))
            if confirmed:
                break

    if scen:
        try_replay()
    if (m_findings or scen) and not confirmed and not thorough:
        # something is wrong but not reproduced yet: look for replayable histories (k-induction from Inv states,
        # deeper BMC), each phase under a wall-clock budget
        from . import executor as _ex
        # the last phase: 4 operations from an Inv state with at most one flush among them (a failed flush followed by
        # three emits is the shortest history for some desynchronisations)
        for start, K, F, only in (('inv', 3, 1, None), ('init', 3, 1, None), ('inv', 4, 1, lambda sq: len(sq) == 4 and sq.count('f') <= 1)):
            _ex.DEADLINE = time.time() + 240
            try:
                res = wm.bmc_parallel(prog, K, F, timeout_ms=timeout_ms, seed=out.seed, start=start, only=only)
            finally:
                _ex.DEADLINE = None
            hh, oo, ss, tt = _merge_jobs(res, tot, fns, stubs, backend)
            obligations += oo
            steps += ss
            st += tt
            h0 += hh
            jobs.append((start, K, F, res))
            scen = collect(jobs)
            try_replay()
            if confirmed:
                break
    claimed_here = [x for x in scen if x[0]['prop'] == pid]

    out.evidence = {
        'level': 'model_checking',
        'assumptions': ASSUMPTIONS,
        'coverage': {
            'states': paths + h0,
            'transitions': steps,
            'paths': paths + h0,
            'mir_steps': steps,
            'traces_validated_against_impl': replayed,
            'obligations': obligations,
            'discharged': obligations - len(m_findings) - len(scen),
            'queries': tot,
            'evaluations': tot['total'],
            'distinct_nontrivial': paths + h0,
            'rule': 'one case = one feasible symbolic path (inductive step) or one feasible symbolic bounded history; all are '
                    'non-trivial (each ends in >= 1 solver-discharged obligation); distinct by branch-decision trail',
            'solver_time_s': round(st, 2),
            'solver_backends': backend,
            'functions_encoded': sorted(fns),
            'stubs': sorted(stubs),
            'bounds': {
                'inductive_step': 'all capacities, terminator lengths, metric lengths, fill levels (64-bit symbolic); any number of faults per step',
                'bounded_histories': 'K<=%d ops from MultiLineWriter::with_ending + final drop, <=%d failing socket writes, all sizes symbolic' % (K0, F0),
                'k_induction': '3 ops from any Inv state, <=1 failing socket write' if thorough or inductive_broken else 'not run (1-step induction passed)',
                'outside': 'zero-length metrics; > 2 consecutive Interrupted retries; partial (non-datagram) writes of the underlying writer; failing inner flush()',
            },
            'inductive': not inductive_broken,
            'translator_validation': {'bufwriter_model_diff_cases': nrows, 'mismatches': 0},
            'mir': dinfo,
            'samples': samples + [{'bounded_histories': h0, 'op_sequences': sorted(set(r['opseq'] for _, _, _, res in jobs for r in res))[:40]}],
        },
    }

    if pid == 'C06' and not confirmed:
        # "a later flush (on the sink, or through the client, including through a queuing wrapper)": the delegations
        deleg = flush_delegations(prog, out)
        out.evidence['coverage']['flush_delegation'] = deleg['summary']
        out.evidence['coverage']['obligations'] += deleg['obligations']
        out.evidence['coverage']['discharged'] += deleg['obligations'] - len(deleg['findings'])
        if deleg['findings']:
            res = replay.run_scenarios([{'kind': 'flush-delegation'}])[0]
            out.evidence['coverage']['traces_validated_against_impl'] += 1
            hit = [v for v in res.get('violations', []) if v['prop'] == pid]
            if hit:
                out.violations.append({'key': 'writer:%s' % hit[0]['clause'], 'what': '%s: %s (solver side: %s)' % (hit[0]['clause'], hit[0]['detail'], deleg['findings'][0][:300]),
                                       'scenario': {'kind': 'flush-delegation'}, 'native': hit})
                return
            out.inconclusive.append('flush delegation: ' + deleg['findings'][0])
    if confirmed:
        seen = set()
        for f, o, hit, prof in confirmed:
            key = (hit[0]['clause'])
            if key in seen:
                continue
            seen.add(key)
            sc = dict(f['scenario'])
            sc['native_profile'] = prof
            out.violations.append({'key': 'writer:%s' % hit[0]['clause'], 'what': '%s: %s' % (hit[0]['clause'], hit[0]['detail']),
                                   'scenario': sc, 'native': hit})
            if len(out.violations) >= 3:
                break
        return
    if JOB_ERRORS:
        out.inconclusive.append('Unsupported: ' + JOB_ERRORS[0][:1200])
        return
    own = [f for f in m_findings if f['prop'] == pid] + [x for x in claimed_here]
    if own:
        out.inconclusive.append('the solver reports a violation of %s (%s) but no generated history reproduces it natively'
                                % (pid, own[0]['detail'] if isinstance(own[0], dict) else own[0][0]['detail']))
        return
    if inductive_broken or scen:
        out.notes.append('the representation invariant is not inductive on this tree (or another writer property is violated); '
                         'the claim for %s is downgraded to the bounded histories explored' % pid)
    if with_sinks and pid in ('C05', 'C06', 'C07'):
        # the buffered *sinks* around the writer belong to these properties too: default capacity 512 and newline
        # terminator (C05), remainder sent on flush / drop and after a failed flush (C06), the write adapters hand the
        # socket's verdict through (C07)
        from . import check_sinks
        from .checks import Outcome
        sub = Outcome(pid, 'quick', out.seed)     # the sink part is small; its deeper tier belongs to C13 / C14
        check_sinks.run(sub)
        sc = sub.evidence.get('coverage', {})
        out.evidence['coverage']['sink_part'] = {k: sc.get(k) for k in ('obligations', 'queries', 'vacuity')}
        for k in ('obligations', 'discharged', 'states', 'transitions', 'evaluations', 'distinct_nontrivial', 'traces_validated_against_impl'):
            out.evidence['coverage'][k] = out.evidence['coverage'].get(k, 0) + int(sc.get(k, 0) or 0)
        out.violations += sub.violations
        out.inconclusive += sub.inconclusive
        if out.violations or out.inconclusive:
            return
    # oracle self-test: the native oracle must be silent where the solver side passes
    exe = replay.build('dev')
    import subprocess
    r = subprocess.run([exe, 'selftest', 'writer', str(out.seed + 1), '40000' if not thorough else '400000'], capture_output=True, text=True)
    try:
        stest = json.loads(r.stdout)
    except Exception:
        raise Unsupported('oracle self-test failed to run: ' + r.stderr[-300:])
    mine = [a for a in stest.get('alarms', []) if any(v['prop'] == pid for v in a['violations'])]
    out.evidence['coverage']['translator_validation']['oracle_selftest_scenarios'] = stest.get('scenarios')
    if mine and not (inductive_broken or scen):
        out.inconclusive.append('native oracle reports %s on a random scenario although every solver obligation passed: %s'
                                % (pid, json.dumps(mine[0])[:500]))


def flush_delegations(prog, out):
    """StatsdClient::flush and QueuingMetricSink::flush hand the call to the wrapped sink's flush exactly once and
    return its outcome."""
    from . import queue_model as qm, client_model as cm
    from .executor import Explorer
    from .values import Cell, Ref
    from .stubs import is_variant
    findings, obligations = [], 0
    x = qm.Extraction(prog, 'bounded', False)
    P = x.run_program('flush')
    for ops, leaf in P.paths:
        obligations += 1
        kinds = [o['kind'] for o in ops]
        if kinds != ['wrapped_flush'] or leaf[1] != 'token':
            findings.append("QueuingMetricSink::flush is not exactly the wrapped sink's flush: %s -> %r" % (kinds, leaf))
    ex = Explorer(prog, timeout_ms=60000, seed=out.seed)
    cm.install(ex)
    cfg = cm.Config(prefix_dots=0)
    ex.assumptions = cm.len_assumptions(cm.input_names(cfg), cfg)
    ex.var_bounds = cm.len_bounds(cm.input_names(cfg))
    seen = {'ok': 0, 'err': 0}

    def entry(ex):
        client = cm.build_client(ex, prog, cfg)
        c = Cell(client, 'client')
        ex.out['e0'] = len(ex.events)
        return ex.call(prog.find_impl_method('flush', 'StatsdClient'), [Ref(c)])

    def on_path(ex, r, status):
        nonlocal obligations
        obligations += 1
        evs = [e for e in ex.events[ex.out['e0']:] if e[0] == 'sink_flush']
        if status != 'ok' or len(evs) != 1:
            findings.append('StatsdClient::flush: %s, %d sink flush calls' % (status, len(evs)))
            return
        if evs[0][1] == 'ok':
            seen['ok'] += 1
            if not is_variant(r, 'Ok'):
                findings.append('StatsdClient::flush returned %r although the sink flushed' % (r,))
        else:
            seen['err'] += 1
            good = is_variant(r, 'Err') and cm.error_kind(ex, prog, r.fields[0]) == 'IoError' and any(t.ident == evs[0][2].ident for t in cm.find_tokens(r.fields[0]))
            if not good:
                findings.append("StatsdClient::flush does not return the sink's error")

    ex.run(entry, on_path)
    if not (seen['ok'] and seen['err']):
        findings.append('vacuous: client flush paths %r' % seen)
    return {'findings': findings, 'obligations': obligations, 'summary': {'queuing_flush_paths': len(P.paths), 'client_flush_paths': seen}}
