"""C13 / C14 (+ default capacities of C05, flush delegation of C06): the socket-backed sinks.

Sockets, addresses, the resolver, Mutex and channels are environment objects; every send attempt lands in
the event log with a symbolic outcome.
"""
import z3

from .mirparse import Unsupported
from .values import *
from .executor import Explorer, Unwinding
from . import stubs, env_io
from .stubs import ok, err, is_variant, as_str, some, NONE, stub, new_atomic
from .env_io import io_error, Content
from .stubs import ok, err

# --------------------------------------------------------------------------------------
# natives
# --------------------------------------------------------------------------------------


def send_to(ex, args, callee):
    sock = ex.deref_all(args[0])
    data = args[1]
    if isinstance(data, Content):
        total, payload = data.total(), ('content', data.prefix_bytes, data.chunks)
    else:
        s = as_str(ex, data)
        total, payload = s.length(), ('bytes', None, (s,))
    dest = ex.deref_all(args[2]) if isinstance(args[2], Ref) else args[2]
    f = ex.fresh('send_fail', 'bool')
    n = ex.fresh('sent', 64)
    if ex.choose([z3.Not(f), f], free=True) == 1:
        e = io_error(ex, 'send_to-%d' % len(ex.events))
        ex.events.append(('send_to', sock.ident, payload, dest, 'err', e, total))
        return err(e)
    # the kernel's return value of a datagram send is the datagram size; kept symbolic (<= size) to see what the
    # sink does with it
    ex.assume(z3.ULE(n, total))
    ex.events.append(('send_to', sock.ident, payload, dest, 'ok', n, total))
    return ok(Int(n, 'usize'))


@stub('UdpSocket::send_to', 'UnixDatagram::send_to')
def socket_send_to(ex, args, callee):
    return send_to(ex, args, callee)


@stub('UdpSocket::connect', 'UnixDatagram::connect')
def socket_connect(ex, args, callee):
    sock = ex.deref_all(args[0])
    dest = ex.deref_all(args[1]) if isinstance(args[1], Ref) else args[1]
    f = ex.fresh('connect_fail', 'bool')
    if ex.choose([z3.Not(f), f], free=True) == 1:
        e = io_error(ex, 'connect-%d' % len(ex.events))
        ex.events.append(('connect', sock.ident, dest, 'err', e))
        return err(e)
    ex.events.append(('connect', sock.ident, dest, 'ok'))
    return ok(UNIT)


@stub('UdpSocket::peer_addr', 'UnixDatagram::peer_addr')
def socket_peer_addr(ex, args, callee):
    """Environment: whether the caller handed over an already connected socket is its choice (Ok(addr) / Err(NotConnected))."""
    f = ex.fresh('peer_addr_fail', 'bool')
    if ex.choose([f, z3.Not(f)], free=True) == 0:
        return err(io_error(ex, 'peer_addr-%d' % len(ex.events)))
    return ok(Native('SocketAddr', None, fresh_id()))


@stub('UdpSocket::send', 'UnixDatagram::send')
def socket_send(ex, args, callee):
    # a send on a connected socket goes to whatever peer the socket was bound to at connect time - which is not "the
    # address / path given" any more once that name is re-bound; recorded as a send to the pseudo-destination 'connected-peer'
    return send_to(ex, [args[0], args[1], Native('ConnectedPeer', None, fresh_id())], callee)


@stub('UdpSocket::try_clone', 'UnixDatagram::try_clone')
def socket_try_clone(ex, args, callee):
    # a duplicated descriptor refers to the same socket
    sock = ex.deref_all(args[0])
    return ok(sock)


@stub('<* as ToSocketAddrs>::to_socket_addrs')
def to_socket_addrs(ex, args, callee):
    a = ex.deref_all(args[0]) if isinstance(args[0], Ref) else args[0]
    k = ex.nondet(4, 'resolve')     # error | 0 | 1 | 2 addresses
    if k == 0:
        e = io_error(ex, 'resolver')
        ex.events.append(('resolve', 'err', e))
        return err(e)
    addrs = tuple(Native('SocketAddr', ('resolved', i), fresh_id()) for i in range(k - 1))
    ex.events.append(('resolve', 'ok', addrs))
    return ok(Native('VecIntoIter', (addrs, 0)))


@stub('<P as AsRef>::as_ref', '<* as AsRef>::as_ref')
def as_ref_path(ex, args, callee):
    return args[0]


@stub('Path::to_path_buf', '<Path as ToOwned>::to_owned', '<PathBuf as Deref>::deref', 'PathBuf::as_path', '<PathBuf as AsRef>::as_ref',
      '<PathBuf as Clone>::clone')
def path_identity(ex, args, callee):
    v = ex.deref_all(args[0]) if isinstance(args[0], Ref) else args[0]
    return v


# --- Mutex (sequential use here; mutual exclusion itself is C12's subject) -------------------------------

@stub('Mutex::new')
def mutex_new(ex, args, callee):
    return Native('Mutex', Cell(args[0], 'mutex-data'), fresh_id())


@stub('Mutex::lock')
def mutex_lock(ex, args, callee):
    m = ex.deref_all(args[0])
    if not (isinstance(m, Native) and m.rty == 'Mutex'):
        raise Unsupported('lock of %r' % (m,))
    ex.events.append(('lock', m.ident))
    ms = ex.out.setdefault('mutex', {}).setdefault(m.ident, {'held': False, 'poisoned': False})
    if ms['poisoned']:
        return err(Native('PoisonError', m.state, fresh_id()))
    if ms['held']:
        raise Unsupported('re-entrant lock (would deadlock)')
    ms['held'] = True
    return ok(Native('MutexGuard', (m.state, m.ident), fresh_id()))


@stub('Mutex::try_lock')
def mutex_try_lock(ex, args, callee):
    # another thread may hold the lock at this moment (environment choice): WouldBlock, or the same as lock()
    if ex.choose([z3.BoolVal(True), z3.BoolVal(True)], free=True) == 1:
        ex.events.append(('try_lock_contended',))
        return err(Agg('enum', 'TryLockError', 'WouldBlock', (), 1))
    return mutex_lock(ex, args, callee)


@stub('<MutexGuard as DerefMut>::deref_mut', '<MutexGuard as Deref>::deref')
def guard_deref(ex, args, callee):
    g = ex.deref_all(args[0])
    return Ref(g.state[0], (), True)


def mutex_drop(ex, m):
    v = m.state.v
    m.state.v = MOVED
    ex.drop_value(v)


def guard_drop(ex, g):
    cell, ident = g.state
    ms = ex.out.setdefault('mutex', {}).setdefault(ident, {'held': False, 'poisoned': False})
    ms['held'] = False
    ex.events.append(('unlock', ident))


# --- crossbeam channel as seen by the spy sink (single-threaded use) -----------------------------------------

@stub('bounded')
def chan_bounded(ex, args, callee):
    st = Cell({'cap': args[0], 'items': ()}, 'channel')
    ex.events.append(('bounded', args[0]))
    return Agg('tuple', '', None, (Native('Sender', st, fresh_id()), Native('Receiver', st, fresh_id())))


@stub('unbounded')
def chan_unbounded(ex, args, callee):
    st = Cell({'cap': None, 'items': ()}, 'channel')
    ex.events.append(('unbounded',))
    return Agg('tuple', '', None, (Native('Sender', st, fresh_id()), Native('Receiver', st, fresh_id())))


@stub('Sender::try_send')
def sender_try_send(ex, args, callee):
    s = ex.deref_all(args[0])
    st = s.state.v
    # outcome: Ok / Full (bounded only) / Disconnected - environment decides here
    k = ex.nondet(3 if st['cap'] is not None else 2, 'try_send')
    label = ['ok', 'disconnected', 'full'][k]
    ex.events.append(('try_send', s.ident, args[1], label))
    if k == 0:
        s.state.v = {'cap': st['cap'], 'items': st['items'] + (args[1],)}
        return ok(UNIT)
    variant = {'disconnected': ('Disconnected', 1), 'full': ('Full', 0)}[label]
    return err(Agg('enum', 'TrySendError', variant[0], (args[1],), variant[1]))


def install(ex: Explorer):
    stubs.install(ex)
    env_io.install(ex)
    from . import client_model  # registers Box<dyn Fn> call etc.
    ex.natives['MutexGuard'] = {'drop': guard_drop}
    ex.natives['Mutex'] = {'drop': mutex_drop}
    ex.natives['Sender'] = {}
    ex.natives['Receiver'] = {}


def new_socket(kind):
    return Native(kind, None, fresh_id())
