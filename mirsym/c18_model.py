"""C18: the global holder - set once, read race-free. Axiomatic (RC11 release/acquire fragment) encoding generated
from the MIR of cadence-macros/src/state.rs: every atomic operation with the Ordering written in the source and every
access to the UnsafeCell become events; which path a call takes, reads-from and modification order are SMT variables.
"""
import itertools
import time

import z3

from .mirparse import Unsupported
from .values import *
from .executor import Explorer, Unwinding
from . import stubs
from .stubs import ok, err, is_variant, UNIT, some, NONE

ORD_REL = ('Release', 'AcqRel', 'SeqCst')
ORD_ACQ = ('Acquire', 'AcqRel', 'SeqCst')


class Ev:
    def __init__(self, kind, loc, order=None, wval=None, rsym=None, rmw_fail_order=None):
        self.kind, self.loc, self.order, self.wval, self.rsym = kind, loc, order, wval, rsym

    def __repr__(self):
        return '%s(%s%s%s)' % (self.kind, self.loc, ',' + self.order if self.order else '', '' if self.wval is None else ',w=%s' % self.wval)


class CallPath:
    def __init__(self, call, events, pc, result):
        self.call, self.events, self.pc, self.result = call, events, pc, result

    def __repr__(self):
        return '%s: %s => %s' % (self.call, ' ; '.join(map(repr, self.events)), self.result)


def initial_states(prog, timeout_ms=60000):
    """The holder as each public constructor builds it (their own MIR): {ctor: {'state': int, 'cell_none': bool}}."""
    out = {}
    for ctor, trait in (('new', None), ('default', 'Default')):
        name = prog.find_impl_method(ctor, 'SingletonHolder<T>', trait) if trait else prog.find_impl_method(ctor, 'SingletonHolder<T>')
        if name is None:
            continue
        ex = Explorer(prog, timeout_ms=timeout_ms)
        stubs.install(ex)
        got = []

        def entry(ex, name=name):
            return ex.call(name, [])

        def on_path(ex, res, status):
            if status != 'ok':
                raise Unsupported('SingletonHolder::%s ends with %s' % (ctor, status))
            got.append(res)
        ex.run(entry, on_path)
        if len(got) != 1 or not isinstance(got[0], Agg):
            raise Unsupported('SingletonHolder::%s: %d paths' % (ctor, len(got)))
        st = [f_ for f_ in got[0].fields if isinstance(f_, Native) and f_.rty == 'Atomic']
        cl = [f_ for f_ in got[0].fields if isinstance(f_, Native) and f_.rty == 'UnsafeCell']
        if len(st) != 1 or len(cl) != 1 or st[0].state.v.concrete() is None:
            raise Unsupported('SingletonHolder::%s builds %r' % (ctor, got[0]))
        out[ctor] = {'state': int(st[0].state.v.concrete()), 'cell_none': is_variant(cl[0].state.v, 'None')}
    return out


def extract(prog, timeout_ms=60000):
    """Paths of set / get / is_set with their events. Returns {call: [CallPath]} and stats."""
    out = {}
    stats = []
    for call in ('set', 'get', 'is_set'):
        ex = Explorer(prog, timeout_ms=timeout_ms)
        stubs.install(ex)
        paths = []

        def hook(ex_, kind, a, operand, order):
            if kind == 'load':
                r = ex_.fresh('rv', 64)
                ex_.evs.append(Ev('R', 'state', order, None, r))
                return Int(r, 'usize')
            if kind == 'store':
                c = operand.concrete()
                # a non-constant store writes a term over values read earlier on this path (e.g. "put back what I saw")
                ex_.evs.append(Ev('W', 'state', order, c if c is not None else operand.t))
                return UNIT
            if kind == 'cas':
                expected, new = operand
                succ_o, fail_o = order
                r = ex_.fresh('rv', 64)
                if ex_.choose([r == expected.t, r != expected.t], free=True) == 0:
                    ex_.assume(r == expected.t)
                    c = new.concrete()
                    ex_.evs.append(Ev('RMW', 'state', succ_o, c, r))
                    return ok(Int(r, 'usize'))
                ex_.assume(r != expected.t)
                ex_.evs.append(Ev('R', 'state', fail_o, None, r))
                return err(Int(r, 'usize'))
            raise Unsupported('atomic %s on the holder' % kind)

        def swap_stub(ex_, args, callee):
            from .stubs import ordering_name
            r = ex_.fresh('rv', 64)
            c = args[1].concrete()
            ex_.evs.append(Ev('RMW', 'state', ordering_name(args[2]), c if c is not None else args[1].t, r))
            return Int(r, 'usize')
        ex.stubs['Atomic::swap'] = swap_stub

        def entry(ex, call=call):
            ex.evs = []
            ex.atomic_hook = hook
            ex.na_hook = lambda kind: ex.evs.append(Ev('NAW' if kind == 'write' else 'NAR', 'value'))
            cellv = Native('UnsafeCell', Cell(NONE, 'holder-value'), fresh_id())
            holder = Agg('struct', 'SingletonHolder', None, (cellv, stubs.new_atomic(mk_int(0, 'usize'), 'state')))
            hc = Cell(holder, 'holder')
            name = prog.find_impl_method(call, 'SingletonHolder<T>')
            if name is None:
                raise Unsupported('SingletonHolder::%s not found' % call)
            if call == 'set':
                r = ex.call(name, [Ref(hc), Native('ClientToken', None, fresh_id())])
                return 'unit'
            r = ex.call(name, [Ref(hc)])
            if call == 'is_set':
                if r.concrete() is None:
                    # the answer depends on the word that was loaded: one path per answer
                    t = r.t
                    return 'true' if ex.choose_bool(t if z3.is_bool(t) else t != 0) else 'false'
                return 'true' if r.concrete() else 'false'
            return 'some' if is_variant(r, 'Some') else 'none'

        def on_path(ex, res, status):
            if status != 'ok':
                raise Unsupported('holder call %s ends with %s %r' % (call, status, res))
            paths.append(CallPath(call, list(ex.evs), [c for c in ex.pc], res))

        ex.run(entry, on_path)
        ex.atomic_hook = None
        stats.append(ex.stats)
        out[call] = paths
    return out, stats


# ---------------------------------------------------------------------------------------------------------
# axiomatic encoding of one program (calls assigned to threads)
# ---------------------------------------------------------------------------------------------------------

_COMPLETE = {}


def complete_pred(paths):
    """The state words that mean 'set': the condition under which is_set() answers true, as a predicate on the loaded word."""
    key = id(paths)
    if key not in _COMPLETE:
        tp = [p for p in paths['is_set'] if p.result == 'true']
        if not tp:
            raise Unsupported('is_set has no path returning true')
        alts = []
        for p in tp:
            rs = [e.rsym for e in p.events if e.rsym is not None]
            if len(rs) != 1:
                raise Unsupported('is_set reads the state %d times' % len(rs))
            alts.append((rs[0], list(p.pc)))
        _COMPLETE[key] = (paths, alts)
    alts = _COMPLETE[key][1]
    return lambda v: z3.Or(*[z3.And(*[z3.substitute(c, (r, v)) for c in pc]) if pc else z3.BoolVal(True) for r, pc in alts])


class Execution:
    def __init__(self, paths, program, init_state=0):
        """program: list of threads, each a list of call names; init_state: the state word the constructor stores."""
        self.paths, self.program = paths, program
        self.init_state = init_state
        self.cons = []
        self.events = []      # dicts
        self.build()

    def build(self):
        cons = self.cons
        evs = self.events
        # initial writes (hb-before everything)
        init_state = {'id': 0, 'thr': -1, 'po': 0, 'kind': 'W', 'loc': 'state', 'order': 'Relaxed', 'wval': z3.BitVecVal(self.init_state, 64), 'active': z3.BoolVal(True), 'call': None, 'init': True}
        init_val = {'id': 1, 'thr': -1, 'po': 0, 'kind': 'NAW', 'loc': 'value', 'order': None, 'wval': None, 'active': z3.BoolVal(True), 'call': None, 'init': True}
        evs += [init_state, init_val]
        self.calls = []
        for ti, thread in enumerate(self.program):
            po = 0
            for ci, call in enumerate(thread):
                cid = 't%dc%d' % (ti, ci)
                choice = z3.Int('path_' + cid)
                plist = self.paths[call]
                cons.append(z3.And(choice >= 0, choice < len(plist)))
                self.calls.append({'cid': cid, 'call': call, 'choice': choice, 'paths': plist, 'thr': ti})
                for pi, p in enumerate(plist):
                    active = choice == pi
                    subs = []
                    local = []
                    for e in p.events:
                        d = {'id': len(evs), 'thr': ti, 'po': po, 'kind': e.kind, 'loc': e.loc, 'order': e.order, 'active': active, 'call': cid,
                             'callname': call, 'path': pi, 'init': False,
                             'wval': None if e.wval is None else (z3.BitVecVal(e.wval, 64) if isinstance(e.wval, int) else (z3.substitute(e.wval, *subs) if subs else e.wval))}
                        po += 1
                        if e.rsym is not None:
                            d['rval'] = z3.BitVec('rval_%d' % d['id'], 64)
                            subs.append((e.rsym, d['rval']))
                        evs.append(d)
                        local.append(d)
                    # the path is taken only if the values read satisfy its path condition
                    for c in p.pc:
                        cons.append(z3.Implies(active, z3.substitute(c, *subs) if subs else c))
        n = len(evs)
        self.n = n
        A = lambda e: e['active']
        writes = lambda loc: [e for e in evs if e['loc'] == loc and e['kind'] in ('W', 'RMW', 'NAW')]
        reads = [e for e in evs if e['kind'] in ('R', 'RMW')]
        # mo: a position per write to `state` (init first, total among active writes)
        mo = {e['id']: z3.Int('mo_%d' % e['id']) for e in writes('state')}
        self.mo = mo
        cons.append(mo[0] == 0)
        ws = writes('state')
        for a, b in itertools.combinations(ws, 2):
            cons.append(z3.Implies(z3.And(A(a), A(b)), mo[a['id']] != mo[b['id']]))
        for w in ws:
            cons.append(z3.Implies(A(w), mo[w['id']] >= 0))
        # rf for atomic reads
        rf = {}
        for r in reads:
            v = z3.Int('rf_%d' % r['id'])
            rf[r['id']] = v
            opts = []
            for w in ws:
                if w['id'] == r['id']:
                    continue
                opts.append(z3.And(v == w['id'], A(w), r['rval'] == w['wval']))
            cons.append(z3.Implies(A(r), z3.Or(*opts)))
        self.rf = rf
        # RMW atomicity: reads from its immediate mo-predecessor
        for r in reads:
            if r['kind'] != 'RMW':
                continue
            for w in ws:
                if w['id'] == r['id']:
                    continue
                cons.append(z3.Implies(z3.And(A(r), rf[r['id']] == w['id']), mo[w['id']] < mo[r['id']]))
                for w2 in ws:
                    if w2['id'] in (w['id'], r['id']):
                        continue
                    cons.append(z3.Implies(z3.And(A(r), A(w2), rf[r['id']] == w['id']),
                                           z3.Not(z3.And(mo[w['id']] < mo[w2['id']], mo[w2['id']] < mo[r['id']]))))
        # sw (with release sequences through RMWs) and hb
        def rel(e):
            return e['order'] in ORD_REL

        def acq(e):
            return e['order'] in ORD_ACQ
        # rs[w][w2]: w2 is in the release sequence headed by w (w itself, or an RMW reading from a member)
        rs = {}
        rmws = [e for e in ws if e['kind'] == 'RMW']
        for w in ws:
            rs[(w['id'], w['id'])] = A(w)
        for _ in range(len(rmws)):
            for w in ws:
                for m in rmws:
                    if m['id'] == w['id']:
                        continue
                    prev = rs.get((w['id'], m['id']), z3.BoolVal(False))
                    via = z3.Or(*[z3.And(rs.get((w['id'], x['id']), z3.BoolVal(False)), rf[m['id']] == x['id']) for x in ws if x['id'] != m['id']])
                    rs[(w['id'], m['id'])] = z3.Or(prev, z3.And(A(m), via))
        base = [[z3.BoolVal(False)] * n for _ in range(n)]
        for a in evs:
            for b in evs:
                if a['id'] == b['id']:
                    continue
                conds = []
                if a.get('init') and not b.get('init'):
                    conds.append(z3.BoolVal(True))
                if a['thr'] == b['thr'] and a['thr'] >= 0 and a['po'] < b['po']:
                    conds.append(z3.BoolVal(True))
                if a['loc'] == 'state' and b['loc'] == 'state' and a['kind'] in ('W', 'RMW') and b['kind'] in ('R', 'RMW') and rel(a) and acq(b) and a['thr'] != b['thr']:
                    # b reads from a member of a's release sequence
                    conds.append(z3.Or(*[z3.And(rs.get((a['id'], x['id']), z3.BoolVal(False)), rf[b['id']] == x['id']) for x in ws if x['id'] != b['id']]))
                if conds:
                    base[a['id']][b['id']] = z3.And(A(a), A(b), z3.Or(*conds))
        hb = base
        k = 1
        while k < n:
            nxt = [[hb[i][j] for j in range(n)] for i in range(n)]
            for i in range(n):
                for j in range(n):
                    if i == j:
                        continue
                    nxt[i][j] = z3.Or(hb[i][j], *[z3.And(hb[i][m], hb[m][j]) for m in range(n) if m not in (i, j)])
            # name the layer to keep terms small
            named = [[None] * n for _ in range(n)]
            for i in range(n):
                for j in range(n):
                    v = z3.Bool('hb%d_%d_%d' % (k, i, j))
                    cons.append(v == nxt[i][j])
                    named[i][j] = v
            hb = named
            k *= 2
        self.hb = hb
        # coherence
        for r in reads:
            for w in ws:
                if w['id'] == r['id']:
                    continue
                # no read from an hb-later write; an hb-earlier write hides mo-earlier ones
                cons.append(z3.Implies(z3.And(A(r), rf[r['id']] == w['id']), z3.Not(hb[r['id']][w['id']])))
                for w2 in ws:
                    if w2['id'] in (w['id'], r['id']):
                        continue
                    cons.append(z3.Implies(z3.And(A(r), A(w2), rf[r['id']] == w['id'], hb[w2['id']][r['id']]), mo[w2['id']] <= mo[w['id']]))
                    cons.append(z3.Implies(z3.And(A(r), A(w2), rf[r['id']] == w['id'], hb[r['id']][w2['id']]), mo[w['id']] < mo[w2['id']]))
        for a, b in itertools.permutations(ws, 2):
            cons.append(z3.Implies(z3.And(A(a), A(b), hb[a['id']][b['id']]), mo[a['id']] < mo[b['id']]))
        for r1, r2 in itertools.permutations(reads, 2):
            for w1 in ws:
                for w2 in ws:
                    if w1['id'] == w2['id'] or w1['id'] == r1['id'] or w2['id'] == r2['id']:
                        continue
                    cons.append(z3.Implies(z3.And(A(r1), A(r2), hb[r1['id']][r2['id']], rf[r1['id']] == w1['id'], rf[r2['id']] == w2['id']),
                                           mo[w1['id']] <= mo[w2['id']]))

    # ---- assertions ---------------------------------------------------------------------------------------
    def race(self):
        evs = self.events
        na = [e for e in evs if e['loc'] == 'value' and not e.get('init')]
        pairs = []
        for a, b in itertools.combinations(na, 2):
            if a['thr'] == b['thr']:
                continue
            if 'NAW' not in (a['kind'], b['kind']):
                continue
            pairs.append(z3.And(a['active'], b['active'], z3.Not(self.hb[a['id']][b['id']]), z3.Not(self.hb[b['id']][a['id']])))
        return z3.Or(*pairs) if pairs else z3.BoolVal(False)

    def two_writers(self):
        naw = [e for e in self.events if e['kind'] == 'NAW' and not e.get('init')]
        return z3.Or(*[z3.And(a['active'], b['active']) for a, b in itertools.combinations(naw, 2) if a['call'] != b['call']]) if len(naw) > 1 else z3.BoolVal(False)

    def stale_some(self):
        """a `get` that reads the cell without the initialising write happening-before it"""
        evs = self.events
        naw = [e for e in evs if e['kind'] == 'NAW' and not e.get('init')]
        bad = []
        for r in evs:
            if r['kind'] == 'NAR' and r.get('callname') == 'get':
                bad.append(z3.And(r['active'], z3.Not(z3.Or(*[z3.And(w['active'], self.hb[w['id']][r['id']]) for w in naw])) if naw else r['active']))
        return z3.Or(*bad) if bad else z3.BoolVal(False)

    def unset_again(self):
        """a read of the state word that happens-after a completed set but does not see COMPLETE (a later set disturbed the holder)"""
        evs = self.events
        comp = complete_pred(self.paths)
        stores = [e for e in evs if e['kind'] in ('W', 'RMW') and e['loc'] == 'state' and not e.get('init') and e.get('wval') is not None
                  and not z3.is_false(z3.simplify(comp(e['wval'])))]
        bad = []
        for r in evs:
            if r['kind'] in ('R', 'RMW') and r['loc'] == 'state' and r.get('callname') in ('get', 'is_set'):
                for w in stores:
                    bad.append(z3.And(w['active'], r['active'], comp(w['wval']), self.hb[w['id']][r['id']], z3.Not(comp(r['rval']))))
        return z3.Or(*bad) if bad else z3.BoolVal(False)

    def premature_set(self):
        """is_set / get sees the COMPLETE word in the constructor's own initial write: 'set' is reported although no set ran"""
        comp = complete_pred(self.paths)
        bad = []
        for r in self.events:
            if r['kind'] in ('R', 'RMW') and r['loc'] == 'state' and r.get('callname') in ('get', 'is_set') and r['id'] in self.rf:
                bad.append(z3.And(r['active'], self.rf[r['id']] == 0, comp(r['rval'])))
        return z3.Or(*bad) if bad else z3.BoolVal(False)

    def check(self, cond, timeout_ms=60000):
        s = z3.Solver()
        s.set('timeout', timeout_ms)
        for c in self.cons:
            s.add(c)
        s.add(cond)
        t0 = time.time()
        r = s.check()
        m = s.model() if r == z3.sat else None
        return ('sat' if r == z3.sat else 'unsat' if r == z3.unsat else 'unknown'), m, time.time() - t0

    def describe(self, m):
        out = []
        for c in self.calls:
            pi = m.eval(c['choice'], model_completion=True).as_long()
            out.append({'thread': c['thr'], 'call': c['call'], 'path': repr(c['paths'][pi]), 'result': c['paths'][pi].result})
        return out


def programs(nthreads, max_calls=2):
    """All assignments of <= max_calls calls from {set, get, is_set} to `nthreads` threads, up to symmetry, that contain a
    set and a reader or second setter."""
    calls = ('set', 'get', 'is_set')
    per_thread = []
    for k in range(1, max_calls + 1):
        per_thread += list(itertools.product(calls, repeat=k))
    seen = set()
    out = []
    for combo in itertools.combinations_with_replacement(per_thread, nthreads):
        flat = [c for t in combo for c in t]
        if 'set' not in flat or len(flat) < 2:
            continue
        key = tuple(sorted(combo))
        if key in seen:
            continue
        seen.add(key)
        out.append([list(t) for t in combo])
    return out
