from . import check_client
REG = {}
for _p in ('C01', 'C02', 'C03', 'C04'):
    REG[_p] = check_client.run

from . import check_c20
REG['C20'] = check_c20.run

from . import check_sinks
REG['C13'] = check_sinks.run
REG['C14'] = check_sinks.run

from . import check_queue
for _p in check_queue.PROPS:
    REG[_p] = check_queue.run

from . import check_c18
REG['C18'] = check_c18.run

from . import check_macros
REG['C17'] = check_macros.run

from . import check_c12
REG['C12'] = check_c12.run

from . import check_c02
REG['C02'] = check_c02.run
