"""C20: no input makes the library panic. Every `assert` terminator (overflow, bounds) and every panicking stub
(`unwrap`/`expect` on the wrong variant) reachable on the explored paths is an obligation: the metric-call family
(all entry points / forms / structures, numbers and lengths symbolic), the line writer (inductive step: any state
satisfying the invariant, any sizes) and the sink / queue constructors and operations."""
import json
import time

from . import check_client, check_writer
from .checks import Outcome


def run(out, replay_path=None):
    if replay_path:
        sc = json.load(open(replay_path))
        sub = check_client if sc.get('kind') == 'client' else check_writer
        return sub.run(out, replay_path)
    parts = []
    for mod in (check_client, check_writer):
        o = Outcome(out.pid, out.tier, out.seed)
        mod.run(o, with_sinks=False) if mod is check_writer else mod.run(o)
        parts.append(o)
    try:
        from . import check_sinks
        o = Outcome(out.pid, out.tier, out.seed)
        check_sinks.run(o)
        parts.append(o)
    except ImportError:
        pass
    cov = {'states': 0, 'transitions': 0, 'traces_validated_against_impl': 0, 'obligations': 0, 'discharged': 0,
           'evaluations': 0, 'distinct_nontrivial': 0, 'solver_time_s': 0.0, 'functions_encoded': set(), 'stubs': set(),
           'samples': [], 'queries': {'total': 0, 'sat': 0, 'unsat': 0, 'unknown': 0}, 'parts': []}
    assumptions = []
    for o in parts:
        c = o.evidence.get('coverage', {})
        for k in ('states', 'transitions', 'traces_validated_against_impl', 'obligations', 'discharged', 'evaluations', 'distinct_nontrivial'):
            cov[k] += int(c.get(k, 0) or 0)
        cov['solver_time_s'] += c.get('solver_time_s', 0.0)
        cov['functions_encoded'] |= set(c.get('functions_encoded', []))
        cov['stubs'] |= set(c.get('stubs', []))
        cov['samples'] += c.get('samples', [])[:2]
        for k in cov['queries']:
            cov['queries'][k] += c.get('queries', {}).get(k, 0)
        cov['parts'].append({'bounds': c.get('bounds'), 'inductive': c.get('inductive')})
        assumptions += o.evidence.get('assumptions', [])
        out.violations += o.violations
        out.inconclusive += o.inconclusive
        out.notes += o.notes
    cov['functions_encoded'] = sorted(cov['functions_encoded'])
    cov['stubs'] = sorted(cov['stubs'])
    cov['rule'] = 'one case = one feasible symbolic path; each path contributes its reachable assert terminators / panicking stubs as obligations'
    cov['panic_sites'] = 'overflow / bounds `assert` terminators of the MIR and unwrap/expect stubs met on the explored paths'
    out.evidence = {'level': 'model_checking', 'assumptions': sorted(set(assumptions)) + [
        'panics inside user callbacks, allocation failure, capacities > isize::MAX and thread::spawn failure are outside the claim',
        'the documented panic of the statsd_* macros when no global client is set is C17\'s subject'], 'coverage': cov}
