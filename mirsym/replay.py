"""Build and run the native replay driver (/verif/replay) against the same copy of the
working tree the MIR was dumped from."""
import json
import os
import re
import shutil
import subprocess
import time

from . import dump
from .mirparse import Unsupported

VERIF = dump.VERIF
_built = {}


def build(profile='dev'):
    if profile in _built:
        return _built[profile]
    src = dump.copy_repo()
    sd = dump.scratch_dir()
    crate = os.path.join(sd, 'replay')
    if not os.path.exists(crate):
        shutil.copytree(os.path.join(VERIF, 'replay'), crate, ignore=shutil.ignore_patterns('target'))
        toml = open(os.path.join(crate, 'Cargo.toml')).read()
        toml = toml.replace('/repo/cadence-macros', os.path.join(src, 'cadence-macros')).replace('/repo/cadence"', os.path.join(src, 'cadence') + '"')
        open(os.path.join(crate, 'Cargo.toml'), 'w').write(toml)
    cache = os.environ.get('VERIF_CARGO_CACHE', os.path.join(VERIF, '.cache', 'target-replay'))
    os.makedirs(cache, exist_ok=True)
    env = dict(os.environ, CARGO_NET_OFFLINE='true', CARGO_TARGET_DIR=cache)
    # the scheduling-point hook of /repo (MANIFEST.hooks) is compiled in for the replay driver only
    env['RUSTFLAGS'] = (env.get('RUSTFLAGS', '') + ' --cfg cadence_verif').strip()
    cmd = ['cargo', 'build', '--offline', '-q'] + (['--release'] if profile == 'release' else [])
    t0 = time.time()
    r = subprocess.run(cmd, cwd=crate, env=env, capture_output=True, text=True)
    if r.returncode != 0:
        raise Unsupported('replay driver does not build:\n' + r.stderr[-3000:])
    exe = os.path.join(cache, 'release' if profile == 'release' else 'debug', 'verif-replay')
    # copy the binary so that a parallel check rebuilding the cache cannot swap it under us
    own = os.path.join(sd, 'verif-replay-' + profile)
    shutil.copy2(exe, own)
    _built[profile] = own
    return own


def run_scenarios(scenarios, profile='dev', timeout=120):
    exe = build(profile)
    sd = dump.scratch_dir()
    path = os.path.join(sd, 'scenario-%d.json' % int(time.time() * 1e6))
    json.dump(scenarios, open(path, 'w'))
    try:
        r = subprocess.run([exe, path], capture_output=True, text=True, timeout=timeout)
    except subprocess.TimeoutExpired:
        return [{'error': 'timeout'} for _ in scenarios]
    if r.returncode != 0:
        return [{'error': 'replay driver exit %d: %s' % (r.returncode, r.stderr[-500:])} for _ in scenarios]
    try:
        return json.loads(r.stdout.strip().split('\n')[-1])
    except Exception as e:
        return [{'error': 'bad replay output: %r' % r.stdout[-300:]} for _ in scenarios]


def table(args, profile='dev', timeout=300):
    exe = build(profile)
    r = subprocess.run([exe, 'model-diff'] + [str(a) for a in args], capture_output=True, text=True, timeout=timeout)
    if r.returncode != 0:
        raise Unsupported('model-diff failed: ' + r.stderr[-500:])
    return json.loads(r.stdout)
