//! Kani harnesses for C02's numeric kernels: the REAL conversion code (cadence::ext::To*Value impls) over the full
//! range of every accepted numeric type and of Duration. Decided by CBMC; bounds are stated per harness.
#![allow(clippy::all)]

#[cfg(kani)]
mod proofs {
    use cadence::ext::{MetricValue, ToCounterValue, ToDistributionValue, ToGaugeValue, ToHistogramValue, ToMeterValue, ToSetValue, ToTimerValue};
    use cadence::ErrorKind;
    use std::time::Duration;

    fn signed(v: cadence::MetricResult<MetricValue>) -> i64 {
        match v {
            Ok(MetricValue::Signed(x)) => x,
            _ => panic!("expected Signed"),
        }
    }

    fn unsigned(v: cadence::MetricResult<MetricValue>) -> u64 {
        match v {
            Ok(MetricValue::Unsigned(x)) => x,
            _ => panic!("expected Unsigned"),
        }
    }

    fn float_bits(v: cadence::MetricResult<MetricValue>) -> u64 {
        match v {
            Ok(MetricValue::Float(x)) => x.to_bits(),
            _ => panic!("expected Float"),
        }
    }

    #[kani::proof]
    fn counter_values() {
        let a: i64 = kani::any();
        assert!(signed(ToCounterValue::try_to_value(a)) == a);
        let b: i32 = kani::any();
        assert!(signed(ToCounterValue::try_to_value(b)) == b as i64);
        let c: u64 = kani::any();
        assert!(unsigned(ToCounterValue::try_to_value(c)) == c);
        let d: u32 = kani::any();
        assert!(unsigned(ToCounterValue::try_to_value(d)) == d as u64);
        kani::cover!(a < 0 && c > i64::MAX as u64);
    }

    #[kani::proof]
    fn scalar_u64_and_set_values() {
        let c: u64 = kani::any();
        assert!(unsigned(ToTimerValue::try_to_value(c)) == c);
        assert!(unsigned(ToGaugeValue::try_to_value(c)) == c);
        assert!(unsigned(ToMeterValue::try_to_value(c)) == c);
        assert!(unsigned(ToHistogramValue::try_to_value(c)) == c);
        assert!(unsigned(ToDistributionValue::try_to_value(c)) == c);
        let s: i64 = kani::any();
        assert!(signed(ToSetValue::try_to_value(s)) == s);
        kani::cover!(c == u64::MAX && s == i64::MIN);
    }

    #[kani::proof]
    fn float_values_bit_identical() {
        let bits: u64 = kani::any();
        let f = f64::from_bits(bits);
        assert!(float_bits(ToGaugeValue::try_to_value(f)) == bits);
        assert!(float_bits(ToHistogramValue::try_to_value(f)) == bits);
        assert!(float_bits(ToDistributionValue::try_to_value(f)) == bits);
        kani::cover!(f.is_nan());
        kani::cover!(bits == 0x8000_0000_0000_0000);
    }

    fn any_duration() -> (Duration, u64, u32) {
        let secs: u64 = kani::any();
        let nanos: u32 = kani::any();
        kani::assume(nanos < 1_000_000_000);
        (Duration::new(secs, nanos), secs, nanos)
    }

    #[kani::proof]
    fn timer_duration_full_range() {
        let (d, secs, nanos) = any_duration();
        let exact: u128 = (secs as u128) * 1000 + (nanos as u128) / 1_000_000;
        match ToTimerValue::try_to_value(d) {
            Ok(MetricValue::Unsigned(ms)) => {
                assert!(exact <= u64::MAX as u128);
                assert!(ms as u128 == exact);
            }
            Ok(_) => panic!("wrong variant"),
            Err(e) => {
                assert!(exact > u64::MAX as u128);
                assert!(e.kind() == ErrorKind::InvalidInput);
                std::mem::forget(e);
            }
        }
        kani::cover!(exact > u64::MAX as u128);
        kani::cover!(exact == u64::MAX as u128);
    }

    #[kani::proof]
    fn histogram_duration_full_range() {
        let (d, secs, nanos) = any_duration();
        let exact: u128 = (secs as u128) * 1_000_000_000 + nanos as u128;
        match ToHistogramValue::try_to_value(d) {
            Ok(MetricValue::Unsigned(ns)) => {
                assert!(exact <= u64::MAX as u128);
                assert!(ns as u128 == exact);
            }
            Ok(_) => panic!("wrong variant"),
            Err(e) => {
                assert!(exact > u64::MAX as u128);
                assert!(e.kind() == ErrorKind::InvalidInput);
                std::mem::forget(e);
            }
        }
        kani::cover!(exact > u64::MAX as u128);
        kani::cover!(exact == u64::MAX as u128);
    }
}

#[cfg(kani)]
mod packed {
    use cadence::ext::{MetricValue, ToHistogramValue, ToTimerValue};
    use cadence::ErrorKind;
    use std::time::Duration;

    /// Packed durations, 2 elements (bound stated in the evidence): overflow of EITHER element rejects the list, otherwise
    /// length and order are kept.
    #[kani::proof]
    #[kani::unwind(4)]
    fn timer_packed_durations_len2() {
        let s0: u64 = kani::any();
        let s1: u64 = kani::any();
        let n0: u32 = kani::any();
        let n1: u32 = kani::any();
        kani::assume(n0 < 1_000_000_000 && n1 < 1_000_000_000);
        let e0: u128 = (s0 as u128) * 1000 + (n0 as u128) / 1_000_000;
        let e1: u128 = (s1 as u128) * 1000 + (n1 as u128) / 1_000_000;
        let v = vec![Duration::new(s0, n0), Duration::new(s1, n1)];
        match ToTimerValue::try_to_value(v) {
            Ok(MetricValue::PackedUnsigned(out)) => {
                assert!(e0 <= u64::MAX as u128 && e1 <= u64::MAX as u128);
                assert!(out.len() == 2);
                assert!(out[0] as u128 == e0 && out[1] as u128 == e1);
                std::mem::forget(out);
            }
            Ok(_) => panic!("wrong variant"),
            Err(e) => {
                assert!(e0 > u64::MAX as u128 || e1 > u64::MAX as u128);
                assert!(e.kind() == ErrorKind::InvalidInput);
                std::mem::forget(e);
            }
        }
        kani::cover!(e0 <= u64::MAX as u128 && e1 > u64::MAX as u128);
    }

    #[kani::proof]
    #[kani::unwind(4)]
    fn histogram_packed_durations_len2() {
        let s0: u64 = kani::any();
        let s1: u64 = kani::any();
        let n0: u32 = kani::any();
        let n1: u32 = kani::any();
        kani::assume(n0 < 1_000_000_000 && n1 < 1_000_000_000);
        let e0: u128 = (s0 as u128) * 1_000_000_000 + n0 as u128;
        let e1: u128 = (s1 as u128) * 1_000_000_000 + n1 as u128;
        let v = vec![Duration::new(s0, n0), Duration::new(s1, n1)];
        match ToHistogramValue::try_to_value(v) {
            Ok(MetricValue::PackedUnsigned(out)) => {
                assert!(e0 <= u64::MAX as u128 && e1 <= u64::MAX as u128);
                assert!(out.len() == 2);
                assert!(out[0] as u128 == e0 && out[1] as u128 == e1);
                std::mem::forget(out);
            }
            Ok(_) => panic!("wrong variant"),
            Err(e) => {
                assert!(e0 > u64::MAX as u128 || e1 > u64::MAX as u128);
                assert!(e.kind() == ErrorKind::InvalidInput);
                std::mem::forget(e);
            }
        }
        kani::cover!(e0 > u64::MAX as u128 && e1 <= u64::MAX as u128);
    }
}
