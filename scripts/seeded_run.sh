#!/bin/bash
# seeded_run.sh <patch.diff> <ID> [<ID>...]  - apply a seeded change to /repo, run the quick checks, undo it.
patch=$1; shift
cd /verif || exit 2
if ! git -C /repo diff --quiet; then echo "/repo has uncommitted changes; refusing"; exit 2; fi
git -C /repo apply "$patch" || { echo "patch does not apply"; exit 2; }
trap 'git -C /repo checkout -- . ; git -C /repo clean -fdq -- cadence cadence-macros' EXIT
for id in "$@"; do
  start=$(date +%s)
  out=$(VERIF_TIER=${VERIF_TIER:-quick} ./check "$id" --tier ${VERIF_TIER:-quick} 2>&1); rc=$?
  echo "--- $id exit=$rc ($(( $(date +%s) - start ))s)"
  echo "$out" | grep -E "^(VIOLATION|INCONCLUSIVE|KNOWN-FINDING|OK|  what|  note)" | cut -c1-400 | head -8
done
