#!/bin/bash
# run_all.sh [quick|thorough] : run every registered check on /repo as it is and summarise
cd "$(dirname "$0")/.." || exit 2
tier=${1:-quick}
ids=$(python3 -c "import json; print(' '.join(c['property_id'] for c in json.load(open('MANIFEST.json'))['checks']))")
for id in $ids; do
  s=$(date +%s); out=$(timeout ${VERIF_CHECK_TIMEOUT:-14400} ./check $id --tier $tier 2>&1); rc=$?
  echo "$id rc=$rc $(( $(date +%s) - s ))s $(echo "$out" | grep -E '^(OK|VIOLATION|INCONCLUSIVE|KNOWN)' | head -2 | cut -c1-160)"
done
