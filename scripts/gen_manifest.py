#!/usr/bin/env python3
"""Regenerates MANIFEST.json from the table below (kept in one place so it always validates)."""
import json, os
HERE = os.path.dirname(os.path.dirname(os.path.abspath(__file__)))
props = [json.loads(l) for l in open(os.path.join(HERE, 'properties.jsonl'))]

WRITER_LEVEL = ("Solver-decided (z3 + cvc5 int-blasting) over the MIR of MultiLineWriter::{with_ending,write,flush} regenerated from "
                "/repo: base case + one inductive step per operation from an arbitrary state satisfying the representation invariant "
                "(all capacities, terminator/metric lengths and fault patterns as 64-bit symbolic variables), plus bounded histories "
                "from the real constructor; counterexamples are replayed natively against the real MultiLineWriter before being reported.")
WRITER_NOTE = ("Trusted: nightly rustc's MIR == what stable builds; mirsym executor; std::io::BufWriter algorithmic stub (diffed against the "
               "real std type every run); all-or-nothing underlying writer; metrics non-empty; sizes <= isize::MAX; <= 2 consecutive Interrupted retries.")

CHECKS = {
    'C05': ('model_checking', WRITER_LEVEL, WRITER_NOTE, 'symbolic execution of MIR + SMT: 1-step induction over a representation invariant, k-induction and BMC of op histories', 'DESIGN.md §5 C05/C06/C07/C19'),
    'C06': ('model_checking', WRITER_LEVEL, WRITER_NOTE, 'symbolic execution of MIR + SMT: 1-step induction over a representation invariant, k-induction and BMC of op histories', 'DESIGN.md §5 C05/C06/C07/C19'),
    'C07': ('model_checking', WRITER_LEVEL, WRITER_NOTE, 'symbolic execution of MIR + SMT with symbolic fault flags per socket write: induction + BMC', 'DESIGN.md §5 C05/C06/C07/C19'),
    'C19': ('model_checking', WRITER_LEVEL, WRITER_NOTE, 'symbolic execution of MIR + SMT: greedy-packing clause in the inductive step, k-induction and BMC', 'DESIGN.md §5 C19'),
}
extra = os.path.join(HERE, 'scripts', 'manifest_extra.json')
if os.path.exists(extra):
    for k, v in json.load(open(extra)).items():
        CHECKS[k] = tuple(v)

NA_REASONS = {}
na_file = os.path.join(HERE, 'scripts', 'not_applicable.json')
if os.path.exists(na_file):
    NA_REASONS = json.load(open(na_file))

checks = []
for p in props:
    pid = p['id']
    if pid not in CHECKS:
        continue
    cat, text, note, tech, ref = CHECKS[pid]
    checks.append({
        'property_id': pid,
        'quick_cmd': './check %s --tier quick' % pid,
        'thorough_cmd': './check %s --tier thorough' % pid,
        'evidence_file': 'evidence/%s.json' % pid,
        'replay_cmd_template': './check %s --replay {path}' % pid,
        'engine': 'mirsym',
        'level_claimed': {'category': cat, 'text': text, 'design_ref': ref},
        'level_note': note,
        'technique': tech,
    })
na = [{'property_id': p['id'], 'reason': NA_REASONS.get(p['id'], 'check not built yet in this session (work in progress); no claim is made')}
      for p in props if p['id'] not in CHECKS]
m = {
    'version': 1,
    'setup_cmd': 'bash scripts/setup.sh',
    'hooks': {
        'guard': 'cadence_verif (rustc --cfg cadence_verif) and kani (cfg(kani))',
        'enable': 'cfg(kani) is set by `cargo kani` itself (closure twin of the default error handler, works around a Kani compiler crash). '
                  'cfg(cadence_verif) is passed through RUSTFLAGS when mirsym/replay.py builds the native replay driver: it compiles in '
                  'cadence::verif::{set_hook, point} and one scheduling point in Worker::run (before recv), which lets the replay hold the queue worker there '
                  'to force a solver-found interleaving (capacity-0 histories). The MIR engine itself reads the unhooked build.',
        'baseline_off_cmd': 'cd /repo && cargo test --workspace --no-fail-fast --offline',
        'source_commits': ['6ae8175946cb9082870c2e1002ccb6761408f276', '04628260e0eed27d8b797639a3ae8b71276da772'],
        'add_only': True,
    },
    'engines': [
        {'name': 'mirsym', 'path': 'mirsym/', 'serves_properties': sorted(CHECKS), 'kind_free_text': 'symbolic executor over rustc MIR dumps of /repo (regenerated every run) feeding z3 / cvc5'},
        {'name': 'replay', 'path': 'replay/', 'serves_properties': sorted(CHECKS), 'kind_free_text': 'native replay driver + oracles: confirms every solver counterexample on the real build'},
    ],
    'checks': checks,
    'not_applicable': na,
    'notes': 'Fix commits in /repo: f2585b5 (C01), d8561c1 (C08), e925d59 (C09). One known finding (C09 at capacity 0, residual race; see known_findings.json and DESIGN.md section 7).',
}
json.dump(m, open(os.path.join(HERE, 'MANIFEST.json'), 'w'), indent=1)
print('MANIFEST.json: %d checks, %d not_applicable' % (len(checks), len(na)))
