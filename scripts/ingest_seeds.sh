#!/bin/bash
# ingest_seeds.sh <seed root> <letters e.g. "E F"> <round> [ids...] : verify sub-agent deliverables (scripts/verify_seed.sh, in a
# scratch copy) and store the verified ones as /verif/seeded/<Cnn><letter>/ {patch.diff, demo.rs, meta.json, agent_notes.md}.
root=$1; letters=$2; round=$3; shift 3
cd "$(dirname "$0")/.." || exit 2
ids="$@"; [ -z "$ids" ] && ids=$(ls "$root" | grep -E '^C[0-9]+$')
head=$(git -C /repo rev-parse --short HEAD)
for id in $ids; do
  for L in $letters; do
    so=$root/$id/seed_out; p=$so/mut$L.diff; d=$so/demo$L.rs
    [ -f "$p" ] && [ -f "$d" ] || { echo "$id$L missing deliverable"; continue; }
    crate=cadence; grep -q "cadence_macros" "$d" && crate=cadence-macros
    mode=test; grep -qi "miri" "$d" && grep -qi "run.*miri\|under miri\|cargo +nightly miri" "$d" && mode=miri
    dn=/tmp/ingest-$id$L; mkdir -p $dn; cp "$d" $dn/demo_$(echo $id$L | tr 'A-Z' 'a-z').rs
    r=$(scripts/verify_seed.sh $id$L "$p" $dn/demo_$(echo $id$L | tr 'A-Z' 'a-z').rs $crate $mode)
    echo "$r"
    ok=$(echo "$r" | python3 -c "
import json,sys
r=json.loads(sys.stdin.read())
print('1' if r.get('demo_clean_rc')==0 and r.get('demo_mut_rc') not in (0,None) and r.get('suite_failed')==2 and r.get('suite_passed',0)>=215 else '0')")
    if [ "$ok" = 1 ]; then
      t=seeded/$id$L; mkdir -p $t; cp "$p" $t/patch.diff; cp "$d" $t/demo.rs; [ -f $so/notes.md ] && cp $so/notes.md $t/agent_notes.md
      python3 - "$id" "$L" "$round" "$crate" "$head" "$mode" > $t/meta.json <<'P'
import json,sys
id,L,rnd,crate,head,mode=sys.argv[1:7]
print(json.dumps({"id":id+L,"breaks_property":id,"change":"(see agent_notes.md)","needs_to_manifest":"(see agent_notes.md)","round":int(rnd),
 "demo":{"file":"demo.rs","goes_in":crate+"/tests/","run":("cargo +nightly miri test" if mode=="miri" else "cargo test")+" --offline -p "+crate+" --test demo"},
 "confirmed_by":"scripts/verify_seed.sh in a scratch copy of /repo at "+head+": patch applies; existing suite unchanged (215 pass incl. doctests, the 2 baseline failures); demo fails with the patch, passes without",
 "origin":"independent sub-agent given only the property text and its own worktree (round "+rnd+")"},indent=1))
P
    else
      echo "$id$L NOT VERIFIED"
    fi
    rm -rf $dn
  done
done
