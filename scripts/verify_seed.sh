#!/bin/bash
# verify_seed.sh <name> <patch.diff> <demo.rs> <crate: cadence|cadence-macros> [miri]
# Confirms, in a scratch copy of /repo (never in /repo itself):
#   1. the patch applies, 2. the existing suite result is unchanged (only the 2 known failures),
#   3. the demo fails with the patch, 4. the demo passes without it.
# Prints one JSON line.
name=$1; patch=$2; demo=$3; crate=${4:-cadence}; mode=${5:-test}
W=$(mktemp -d /tmp/vseed-XXXXXX)
trap 'rm -rf "$W"' EXIT
rsync -a --exclude target --exclude .git --exclude seed_out /repo/ "$W/src/"
cd "$W/src" || exit 2
export CARGO_NET_OFFLINE=true CARGO_TARGET_DIR="$W/target"
dn=$(basename "$demo" .rs)
run_demo() {
  if [ "$mode" = miri ]; then
    timeout 900 cargo +nightly miri test --offline -p "$crate" --test "$dn" >"$W/demo.log" 2>&1
  else
    timeout 900 cargo test --offline -p "$crate" --test "$dn" >"$W/demo.log" 2>&1
  fi
}
cp "$demo" "$crate/tests/$dn.rs"
run_demo; clean_rc=$?
if ! patch -p1 -s < "$patch" >"$W/patch.log" 2>&1; then echo "{\"name\":\"$name\",\"error\":\"patch does not apply\"}"; exit 0; fi
run_demo; mut_rc=$?
mut_tail=$(grep -aE "panicked|assertion|Data race|error:" "$W/demo.log" | head -3 | tr '"\n' "' " | cut -c1-300)
rm "$crate/tests/$dn.rs"
cargo test --workspace --no-fail-fast --offline >"$W/suite.log" 2>&1
passed=$(grep -a "^test result" "$W/suite.log" | awk '{p+=$4} END {print p+0}')
failed=$(grep -a "^test result" "$W/suite.log" | awk '{f+=$6} END {print f+0}')
failing=$(grep -a "^test .* FAILED" "$W/suite.log" | awk '{print $2}' | sort | tr '\n' ',')
echo "{\"name\":\"$name\",\"demo_clean_rc\":$clean_rc,\"demo_mut_rc\":$mut_rc,\"suite_passed\":$passed,\"suite_failed\":$failed,\"failing\":\"$failing\",\"mut_tail\":\"$mut_tail\"}"
