#!/bin/bash
# Offline setup: nothing is fetched. Verifies the tools the checks need and warms the cargo caches.
set -e
cd "$(dirname "$0")/.."
export CARGO_NET_OFFLINE=true
python3-vt -c "import z3; print('z3', z3.get_version_string())"
cvc5 --version | head -1
cargo +nightly --version
mkdir -p .cache evidence replays
# warm the replay driver's dependency build (serde_json, crossbeam) - optional, checks rebuild on demand
python3-vt - <<'PY' || true
import sys
sys.path.insert(0, '.')
from mirsym import replay
print('replay driver:', replay.build('dev'))
PY
