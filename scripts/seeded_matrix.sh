#!/bin/bash
# seeded_matrix.sh [ids...] : run, for every seeded change, the quick check of the property it breaks against a
# scratch copy of /repo with the change applied (never touches /repo). One line per change.
cd "$(dirname "$0")/.." || exit 2
ids="$@"; [ -z "$ids" ] && ids=$(ls seeded)
for id in $ids; do
  prop=$(python3 -c "import json;print(json.load(open('seeded/$id/meta.json'))['breaks_property'])")
  W=$(mktemp -d /tmp/vmx-XXXXXX)
  rsync -a --exclude target --exclude .git /repo/ $W/
  if ! (cd $W && patch -p1 -s < /verif/seeded/$id/patch.diff >/dev/null 2>&1); then echo "$id $prop PATCH-FAILS"; rm -rf $W; continue; fi
  s=$(date +%s)
  out=$(VERIF_REPO=$W timeout 3000 ./check $prop --tier quick 2>&1); rc=$?
  mkdir -p /tmp/vmx-logs; echo "$out" > /tmp/vmx-logs/$id.log
  echo "$id $prop rc=$rc $(( $(date +%s) - s ))s $(echo "$out" | grep -E '^(VIOLATION|INCONCLUSIVE|KNOWN-FINDING|OK)' | sort -r | head -1 | cut -c1-100) | $(echo "$out" | grep -E '^  what' | head -1 | cut -c1-160)"
  rm -rf $W
done
