//! Native replay for the socket sinks (C13, C14) on local sockets.
use cadence::{MetricSink, UdpMetricSink, UnixMetricSink};
use serde_json::{json, Value};
use std::net::UdpSocket;
use std::os::unix::net::UnixDatagram;
use std::path::PathBuf;
use std::sync::Arc;
use std::time::Duration;

fn temp_dir(tag: &str) -> PathBuf {
    let mut p = std::env::temp_dir();
    p.push(format!("verif-replay-{}-{}-{:?}", tag, std::process::id(), std::thread::current().id()));
    let _ = std::fs::remove_dir_all(&p);
    std::fs::create_dir_all(&p).unwrap();
    p
}

fn metric(i: usize, len: usize) -> String {
    // starts with a two-byte character when there is room, so that byte length and character count differ
    let c = (b'a' + (i % 26) as u8) as char;
    if len >= 5 {
        // leading and trailing whitespace are ordinary metric bytes (a sink that trims them changes the payload)
        let mut s = String::from(" \u{e9}");
        s.extend(std::iter::repeat(c).take(len - 4));
        s.push(' ');
        s
    } else if len >= 3 {
        let mut s = String::from("\u{e9}");
        s.extend(std::iter::repeat(c).take(len - 3));
        s.push(' ');
        s
    } else if len >= 2 {
        let mut s: String = std::iter::repeat(c).take(len - 1).collect();
        s.push(' ');
        s
    } else {
        std::iter::repeat(c).take(len).collect()
    }
}

/// C12 / C06 under contention: while another thread sits inside the sink's critical section (an oversized write blocked on a
/// full datagram queue), a flush must wait for the lock - it may not return Ok with an acknowledged metric still buffered.
pub fn c12_flush_contended(_sc: &Value) -> Value {
    use cadence::BufferedUnixMetricSink;
    let mut viol: Vec<Value> = vec![];
    let dir = temp_dir("c12-flush");
    let path = dir.join("s.sock");
    let server = UnixDatagram::bind(&path).unwrap();
    server.set_nonblocking(true).unwrap();
    // fill the receiver's queue so that the next blocking send parks
    let filler = UnixDatagram::unbound().unwrap();
    filler.set_nonblocking(true).unwrap();
    let mut filled = 0;
    while filler.send_to(b"fill", &path).is_ok() && filled < 100000 {
        filled += 1;
    }
    let sink = Arc::new(BufferedUnixMetricSink::with_capacity(&path, UnixDatagram::unbound().unwrap(), 64));
    let acked = sink.emit("a:1|c").is_ok();
    let s2 = sink.clone();
    let big = format!("big.{}:1|c", "x".repeat(100));
    let b = std::thread::spawn(move || {
        let _ = s2.emit(&big);
    });
    std::thread::sleep(Duration::from_millis(400));
    let b_blocked = !b.is_finished();
    let s3 = sink.clone();
    let flushed = Arc::new(std::sync::Mutex::new(None));
    let f2 = flushed.clone();
    let a = std::thread::spawn(move || {
        let r = s3.flush();
        *f2.lock().unwrap() = Some(r.is_ok());
    });
    // a second emitter arrives while the lock is held: it must wait (or fail) - an Ok means the metric will be sent
    let s4 = sink.clone();
    let e_res = Arc::new(std::sync::Mutex::new(None));
    let e2 = e_res.clone();
    let e = std::thread::spawn(move || {
        let r = s4.emit("c:1|c");
        *e2.lock().unwrap() = Some(r.map_err(|x| x.kind()));
    });
    std::thread::sleep(Duration::from_millis(500));
    let early = *flushed.lock().unwrap();
    // drain: everything parked can proceed now
    let mut got: Vec<String> = vec![];
    let mut buf = [0u8; 65536];
    let t = std::time::Instant::now();
    while t.elapsed() < Duration::from_millis(1500) {
        match server.recv(&mut buf) {
            Ok(k) => got.push(String::from_utf8_lossy(&buf[..k]).to_string()),
            Err(_) => {
                if b.is_finished() && a.is_finished() {
                    break;
                }
                std::thread::sleep(Duration::from_millis(5));
            }
        }
    }
    let _ = b.join();
    let _ = a.join();
    let _ = e.join();
    while let Ok(k) = server.recv(&mut buf) {
        got.push(String::from_utf8_lossy(&buf[..k]).to_string());
    }
    // (for the flush-under-contention clause: what the contended flush itself got out)
    let delivered = got.iter().any(|d| d.contains("a:1|c\n"));
    // whatever the contended emitter buffered leaves with this flush
    let last_flush = sink.flush();
    std::thread::sleep(Duration::from_millis(50));
    while let Ok(k) = server.recv(&mut buf) {
        got.push(String::from_utf8_lossy(&buf[..k]).to_string());
    }
    let e_out = e_res.lock().unwrap().clone();
    let c_seen = got.iter().filter(|d| d.split('\n').any(|l| l == "c:1|c")).count();
    if b_blocked && matches!(e_out, Some(Ok(_))) && last_flush.is_ok() && c_seen != 1 {
        viol.push(json!({"prop": "C12", "clause": "acknowledged-exactly-once", "detail": format!(
            "emit(\"c:1|c\") returned {:?} while another thread held the sink's lock (blocked in an oversized write); after everything was flushed the metric appears {} times on the wire", e_out, c_seen)}));
    }
    if acked && b_blocked && early == Some(true) && !delivered {
        for prop in ["C12", "C06"] {
            viol.push(json!({"prop": prop, "clause": "flush-under-contention", "detail":
                "flush() returned Ok while another thread held the sink's lock (blocked in an oversized write) and the acknowledged metric \"a:1|c\" was still buffered: it never reached the socket".to_string()}));
        }
    }
    let _ = std::fs::remove_dir_all(&dir);
    json!({"violations": viol, "log": format!("filled {} b_blocked {} flush returned early {:?} delivered {}", filled, b_blocked, early, delivered)})
}

/// The socket refuses a datagram at flush time (non-blocking socket, peer queue full): the flush must report it.
fn unix_buffered_wouldblock(_sc: &Value) -> Value {
    use cadence::BufferedUnixMetricSink;
    let mut viol: Vec<Value> = vec![];
    let dir = temp_dir("unix-wb");
    let path = dir.join("s.sock");
    let _server = UnixDatagram::bind(&path).unwrap();
    let client = UnixDatagram::unbound().unwrap();
    client.set_nonblocking(true).unwrap();
    let probe = client.try_clone().unwrap();
    let mut filled = 0;
    while probe.send_to(b"fill", &path).is_ok() && filled < 100000 {
        filled += 1;
    }
    // control: the raw socket is refused right now
    let control = probe.send_to(b"x", &path);
    let sink = BufferedUnixMetricSink::with_capacity(&path, client, 64);
    let r1 = sink.emit("a:1|c");
    let f = sink.flush();
    let big = format!("big.{}:1|c", "x".repeat(100));
    let r2 = sink.emit(&big);
    if control.as_ref().err().map(|e| e.kind()) == Some(std::io::ErrorKind::WouldBlock) {
        if r1.is_ok() && f.is_ok() {
            for prop in ["C13", "C07"] {
                viol.push(json!({"prop": prop, "clause": "flush-returns-socket-error", "detail": "the peer's queue is full (a raw send returns WouldBlock) but flush() of the buffered Unix sink returned Ok(()) for a datagram that was not sent".to_string()}));
            }
        }
        if r2.is_ok() {
            for prop in ["C13", "C07"] {
                viol.push(json!({"prop": prop, "clause": "returns-socket-error", "detail": "the peer's queue is full but an oversized emit (written directly) returned Ok".to_string()}));
            }
        }
        // C14: every call that failed did so because one datagram was refused; nothing was accepted
        let st = sink.stats();
        let failed_calls = [f.is_err(), r2.is_err()].iter().filter(|b| **b).count() as u64;
        if st.packets_sent != 0 || st.bytes_sent != 0 {
            viol.push(json!({"prop": "C14", "clause": "packets", "detail": format!("the socket accepted nothing (peer queue full) but the sink reports {:?}", st)}));
        }
        if st.packets_dropped < failed_calls {
            viol.push(json!({"prop": "C14", "clause": "packets", "detail": format!("{} calls failed with the socket's WouldBlock (each a refused datagram) but packets_dropped = {} ({:?})", failed_calls, st.packets_dropped, st)}));
        }
        if st.bytes_dropped < 6 * failed_calls {
            viol.push(json!({"prop": "C14", "clause": "bytes", "detail": format!("{} datagrams of at least 6 bytes were refused but bytes_dropped = {} ({:?})", failed_calls, st.bytes_dropped, st)}));
        }
    }
    let _ = std::fs::remove_dir_all(&dir);
    json!({"violations": viol, "log": format!("filled {} control {:?} emit {:?} flush {:?} big {:?}", filled, control.map_err(|e| e.kind()), r1.map_err(|e| e.kind()), f.map_err(|e| e.kind()), r2.map_err(|e| e.kind()))})
}

/// A connected UDP socket whose peer port is closed: the datagram after the one that bounced is refused by the kernel
/// (ECONNREFUSED); the buffered UDP sink's flush must report that.
fn udp_buffered_refused(_sc: &Value) -> Value {
    use cadence::BufferedUdpMetricSink;
    let mut viol: Vec<Value> = vec![];
    // a port that is closed: bind, read the address, drop
    let closed = {
        let s = UdpSocket::bind("127.0.0.1:0").unwrap();
        s.local_addr().unwrap()
    };
    // control with a raw connected socket: first send is accepted, a later one reports the bounce
    let raw = UdpSocket::bind("127.0.0.1:0").unwrap();
    raw.connect(closed).unwrap();
    let c1 = raw.send(b"x");
    std::thread::sleep(Duration::from_millis(80));
    let c2 = raw.send(b"y");
    let sock = UdpSocket::bind("127.0.0.1:0").unwrap();
    sock.connect(closed).unwrap();
    let sink = BufferedUdpMetricSink::with_capacity(closed, sock, 64).unwrap();
    let _ = sink.emit("d:1|c");
    let f1 = sink.flush();
    std::thread::sleep(Duration::from_millis(80));
    let r2 = sink.emit("e:1|c");
    let f2 = sink.flush();
    let control_refused = c1.is_ok() && c2.as_ref().err().map(|e| e.kind()) == Some(std::io::ErrorKind::ConnectionRefused);
    if control_refused && f1.is_ok() && r2.is_ok() && f2.is_ok() {
        for prop in ["C13", "C07"] {
            viol.push(json!({"prop": prop, "clause": "flush-returns-socket-error", "detail": "the kernel refuses the second datagram on a connected UDP socket whose peer port is closed (raw control: ConnectionRefused) but flush() of the buffered UDP sink returned Ok(())".to_string()}));
        }
    }
    json!({"violations": viol, "log": format!("control {:?} {:?}; sink flush1 {:?} emit2 {:?} flush2 {:?}", c1.map_err(|e| e.kind()), c2.map_err(|e| e.kind()), f1.map_err(|e| e.kind()), r2.map_err(|e| e.kind()), f2.map_err(|e| e.kind()))})
}

/// Buffered sinks built without a capacity buffer 512 bytes: ten 51-byte lines (510 bytes) stay buffered, the eleventh
/// pushes exactly those ten out as one 510-byte datagram.
fn buffered_default_capacity(_sc: &Value) -> Value {
    use cadence::{BufferedSpyMetricSink, BufferedUdpMetricSink, BufferedUnixMetricSink};
    let mut viol: Vec<Value> = vec![];
    let line = |i: usize| format!("m{:02}.{}:1|c", i, "x".repeat(42)); // 50 bytes + newline
    let mut judge = |kind: &str, before: Vec<Vec<u8>>, after: Vec<Vec<u8>>| {
        let sizes: Vec<usize> = after.iter().map(|d| d.len()).collect();
        if !before.is_empty() || sizes != vec![510] {
            for prop in ["C05", "C13"] {
                viol.push(json!({"prop": prop, "clause": "capacity", "detail": format!(
                    "{} built without a capacity: after ten 51-byte lines the wire saw {} datagram(s), after the eleventh datagram sizes {:?} (a 512-byte buffer gives none, then [510])",
                    kind, before.len(), sizes)}));
            }
        }
    };
    {
        let dir = temp_dir("defcap");
        let path = dir.join("s.sock");
        let server = UnixDatagram::bind(&path).unwrap();
        server.set_nonblocking(true).unwrap();
        let sink = BufferedUnixMetricSink::from(&path, UnixDatagram::unbound().unwrap());
        let mut b = [0u8; 65536];
        let mut drain = |srv: &UnixDatagram| {
            let mut v = vec![];
            std::thread::sleep(Duration::from_millis(50));
            while let Ok(k) = srv.recv(&mut b) {
                v.push(b[..k].to_vec());
            }
            v
        };
        for i in 0..10 {
            let _ = sink.emit(&line(i));
        }
        let before = drain(&server);
        let _ = sink.emit(&line(10));
        let after = drain(&server);
        judge("BufferedUnixMetricSink::from", before, after);
        let _ = std::fs::remove_dir_all(&dir);
    }
    {
        let server = UdpSocket::bind("127.0.0.1:0").unwrap();
        server.set_nonblocking(true).unwrap();
        let sink = BufferedUdpMetricSink::from(server.local_addr().unwrap(), UdpSocket::bind("127.0.0.1:0").unwrap()).unwrap();
        let mut b = [0u8; 65536];
        let mut drain = |srv: &UdpSocket| {
            let mut v = vec![];
            std::thread::sleep(Duration::from_millis(50));
            while let Ok(k) = srv.recv(&mut b) {
                v.push(b[..k].to_vec());
            }
            v
        };
        for i in 0..10 {
            let _ = sink.emit(&line(i));
        }
        let before = drain(&server);
        let _ = sink.emit(&line(10));
        let after = drain(&server);
        judge("BufferedUdpMetricSink::from", before, after);
    }
    {
        let (rx, sink) = BufferedSpyMetricSink::new();
        for i in 0..10 {
            let _ = sink.emit(&line(i));
        }
        let mut before = vec![];
        while let Ok(v) = rx.try_recv() {
            before.push(v);
        }
        let _ = sink.emit(&line(10));
        let mut after = vec![];
        while let Ok(v) = rx.try_recv() {
            after.push(v);
        }
        judge("BufferedSpyMetricSink::new", before, after);
    }
    json!({"violations": viol})
}

/// A buffered sink whose first flush fails (nobody listens at the path yet) must still deliver the accepted metric on the
/// next flush, or when it is dropped.
fn unix_buffered_retry(_sc: &Value) -> Value {
    use cadence::BufferedUnixMetricSink;
    let mut viol: Vec<Value> = vec![];
    for how in ["flush", "drop"] {
        let dir = temp_dir("unix-retry");
        let path = dir.join("s.sock");
        let sink = BufferedUnixMetricSink::with_capacity(&path, UnixDatagram::unbound().unwrap(), 64);
        let r1 = sink.emit("a:1|c");
        let f1 = sink.flush();
        let server = UnixDatagram::bind(&path).unwrap();
        server.set_read_timeout(Some(Duration::from_millis(300))).unwrap();
        let f2 = if how == "flush" {
            Some(sink.flush())
        } else {
            drop(sink);
            None
        };
        let mut b = [0u8; 256];
        let got = server.recv(&mut b).map(|k| String::from_utf8_lossy(&b[..k]).to_string());
        if r1.is_ok() && f1.is_err() && got.as_deref().ok() != Some("a:1|c\n") {
            for prop in ["C13", "C06"] {
                viol.push(json!({"prop": prop, "clause": "remainder-sent-after-failed-flush", "detail": format!(
                    "emit Ok, first flush failed ({:?}), listener bound, then {} (result {:?}): the listener received {:?} instead of the buffered metric",
                    f1.as_ref().map_err(|e| e.kind()), how, f2.as_ref().map(|r| r.as_ref().map_err(|e| e.kind())), got.as_ref().map_err(|e| e.kind()))}));
            }
        }
        let _ = std::fs::remove_dir_all(&dir);
    }
    json!({"violations": viol})
}

pub fn replay(sc: &Value) -> Value {
    match sc["sink"].as_str().unwrap_or("") {
        "unix" => unix_unbuffered(sc),
        "udp" => udp_unbuffered(sc),
        "stats-concurrent" => stats_concurrent(sc),
        "unix-buffered-retry" => unix_buffered_retry(sc),
        "buffered-default-capacity" => buffered_default_capacity(sc),
        "unix-buffered-wouldblock" => unix_buffered_wouldblock(sc),
        "udp-buffered-refused" => udp_buffered_refused(sc),
        other => json!({"error": format!("unknown sink scenario {}", other)}),
    }
}

fn unix_unbuffered(sc: &Value) -> Value {
    let lens: Vec<usize> = sc["lens"].as_array().map(|a| a.iter().map(|x| x.as_u64().unwrap_or(1) as usize).collect()).unwrap_or_default();
    let script: Vec<String> = sc["script"].as_array().map(|a| a.iter().map(|x| x.as_str().unwrap_or("ok").to_string()).collect()).unwrap_or_default();
    let dir = temp_dir("unix");
    let path = dir.join("s.sock");
    let mut server = Some(UnixDatagram::bind(&path).unwrap());
    server.as_ref().unwrap().set_read_timeout(Some(Duration::from_millis(300))).unwrap();
    let client = UnixDatagram::unbound().unwrap();
    let nonblocking = script.iter().any(|s| s == "err:WouldBlock");
    client.set_nonblocking(nonblocking).unwrap();
    let filler = client.try_clone().unwrap();
    let sink = UnixMetricSink::from(&path, client);
    let mut viol: Vec<Value> = vec![];
    let mut add = |prop: &str, clause: &str, detail: String| viol.push(json!({"prop": prop, "clause": clause, "detail": detail}));
    let mut log = vec![];
    let (mut okp, mut okb, mut errp, mut errb) = (0u64, 0u64, 0u64, 0u64);
    for (i, len) in lens.iter().enumerate() {
        let want = script.get(i).cloned().unwrap_or_else(|| "ok".to_string());
        let m = metric(i, *len);
        let mut arranged_fail = false;
        match want.as_str() {
            "ok" => {
                if let Some(s) = &server {
                    // make room: drain whatever is queued
                    s.set_nonblocking(true).unwrap();
                    let mut b = [0u8; 65536];
                    while s.recv(&mut b).is_ok() {}
                    s.set_nonblocking(false).unwrap();
                } else {
                    return json!({"error": "cannot realise an accepting socket after the server was removed"});
                }
            }
            "err:WouldBlock" => {
                if server.is_none() {
                    return json!({"error": "cannot realise WouldBlock without a server"});
                }
                let pad = vec![b'#'; 64];
                let mut k = 0;
                loop {
                    match filler.send_to(&pad, &path) {
                        Ok(_) => k += 1,
                        Err(e) if e.kind() == std::io::ErrorKind::WouldBlock => break,
                        Err(e) => return json!({"error": format!("filling the queue failed: {}", e)}),
                    }
                    if k > 1_000_000 {
                        return json!({"error": "receive queue never filled"});
                    }
                }
                arranged_fail = true;
            }
            "err:ConnectionRefused" | "err:NotFound" | "err:Other" | "err:NotConnected" => {
                server = None;
                let _ = std::fs::remove_file(&path);
                arranged_fail = true;
            }
            other => return json!({"error": format!("cannot realise socket outcome {}", other)}),
        }
        let r = sink.emit(&m);
        log.push(format!("emit#{} want={} -> {:?}", i, want, r.as_ref().map_err(|e| e.kind())));
        match (&r, arranged_fail) {
            (Ok(n), false) => {
                okp += 1;
                okb += *n as u64;
                if *n != m.len() {
                    add("C13", "returns-socket-result", format!("emit returned Ok({}) for a datagram of {} bytes", n, m.len()));
                }
                let mut b = [0u8; 65536];
                match server.as_ref().unwrap().recv(&mut b) {
                    Ok(k) => {
                        if &b[..k] != m.as_bytes() {
                            add("C13", "payload", format!("datagram on the wire {:?} differs from the metric {:?}", String::from_utf8_lossy(&b[..k]), m));
                        }
                    }
                    Err(e) => add("C13", "one-datagram-per-emit", format!("emit returned Ok but no datagram arrived: {}", e)),
                }
            }
            (Ok(n), true) => {
                add("C13", "returns-socket-error", format!("the socket refused the datagram ({}) but emit returned Ok({})", want, n));
                add("C14", "packets", format!("the socket refused the datagram ({}) but emit reported success", want));
                errp += 1;
                errb += m.len() as u64;
            }
            (Err(_), true) => {
                errp += 1;
                errb += m.len() as u64;
            }
            (Err(e), false) => add("C13", "returns-socket-result", format!("socket should accept but emit failed: {}", e)),
        }
    }
    let st = sink.stats();
    if st.packets_sent != okp || st.packets_dropped != errp {
        add("C14", "packets", format!("packets_sent={} packets_dropped={} but {} datagrams were accepted and {} refused", st.packets_sent, st.packets_dropped, okp, errp));
    }
    if st.bytes_sent != okb || st.bytes_dropped != errb {
        add("C14", "bytes", format!("bytes_sent={} bytes_dropped={} but accepted datagrams total {} bytes and refused ones {} bytes", st.bytes_sent, st.bytes_dropped, okb, errb));
    }
    let _ = std::fs::remove_dir_all(&dir);
    // the destination is the PATH given at construction, not the socket that happened to be bound to it then: after the
    // path is re-bound by another socket, a later emit must reach the new one
    {
        let dir2 = temp_dir("unix-rebind");
        let p2 = dir2.join("s.sock");
        let s1 = UnixDatagram::bind(&p2).unwrap();
        s1.set_read_timeout(Some(Duration::from_millis(300))).unwrap();
        let sink2 = UnixMetricSink::from(&p2, UnixDatagram::unbound().unwrap());
        let mut b = [0u8; 256];
        let first = sink2.emit("a:1|c");
        let got1 = s1.recv(&mut b).map(|k| b[..k].to_vec());
        drop(s1);
        let _ = std::fs::remove_file(&p2);
        let s2 = UnixDatagram::bind(&p2).unwrap();
        s2.set_read_timeout(Some(Duration::from_millis(300))).unwrap();
        let second = sink2.emit("b:1|c");
        let got2 = s2.recv(&mut b).map(|k| b[..k].to_vec());
        if first.is_err() || got1.as_ref().ok().map(|v| v.as_slice()) != Some(&b"a:1|c"[..]) {
            add("C13", "destination", format!("plain emit to a bound path: result {:?}, datagram {:?}", first.map_err(|e| e.kind()), got1.map_err(|e| e.kind())));
        } else if second.is_err() || got2.as_ref().ok().map(|v| v.as_slice()) != Some(&b"b:1|c"[..]) {
            add("C13", "destination", format!(
                "after the path was re-bound by another socket the emit returned {:?} and the new socket received {:?} (the sink follows the old socket, not the path it was given)",
                second.map_err(|e| e.kind()), got2.map(|v| String::from_utf8_lossy(&v).to_string()).map_err(|e| e.kind())));
        }
        let _ = std::fs::remove_dir_all(&dir2);
    }
    json!({"violations": viol, "log": log})
}

fn udp_unbuffered(sc: &Value) -> Value {
    let lens: Vec<usize> = sc["lens"].as_array().map(|a| a.iter().map(|x| x.as_u64().unwrap_or(1) as usize).collect()).unwrap_or_default();
    let script: Vec<String> = sc["script"].as_array().map(|a| a.iter().map(|x| x.as_str().unwrap_or("ok").to_string()).collect()).unwrap_or_default();
    if script.iter().any(|s| s != "ok") {
        return json!({"error": "failing UDP sends cannot be arranged on loopback"});
    }
    let server = UdpSocket::bind("127.0.0.1:0").unwrap();
    server.set_read_timeout(Some(Duration::from_millis(300))).unwrap();
    let addr = server.local_addr().unwrap();
    // a second address after the first: the sink must use the FIRST resolved address
    let decoy = UdpSocket::bind("127.0.0.1:0").unwrap();
    let addrs = [addr, decoy.local_addr().unwrap()];
    let sink = UdpMetricSink::from(&addrs[..], UdpSocket::bind("127.0.0.1:0").unwrap()).unwrap();
    let mut viol: Vec<Value> = vec![];
    let mut add = |prop: &str, clause: &str, detail: String| viol.push(json!({"prop": prop, "clause": clause, "detail": detail}));
    let (mut okp, mut okb, mut errp, mut errb) = (0u64, 0u64, 0u64, 0u64);
    for (i, len) in lens.iter().enumerate() {
        // datagrams above 65507 bytes are refused by the kernel (EMSGSIZE): a failing send that CAN be arranged on loopback
        let m = metric(i, (*len).min(70000));
        let too_big = m.len() > 65507;
        match sink.emit(&m) {
            Ok(n) => {
                okp += 1;
                okb += n as u64;
                if n != m.len() {
                    add("C13", "returns-socket-result", format!("emit returned Ok({}) for a datagram of {} bytes", n, m.len()));
                }
                let mut b = vec![0u8; 70000];
                match server.recv(&mut b) {
                    Ok(k) if &b[..k] == m.as_bytes() => {}
                    Ok(k) => add("C13", "payload", format!("datagram {:?} differs from the metric {:?}", String::from_utf8_lossy(&b[..k.min(80)]), &m[..m.len().min(80)])),
                    Err(e) => add("C13", "destination", format!("no datagram arrived at the first resolved address: {}", e)),
                }
            }
            Err(e) => {
                errp += 1;
                errb += m.len() as u64;
                if !too_big {
                    add("C13", "returns-socket-result", format!("loopback send failed: {}", e));
                } else {
                    // the raw socket's verdict for the same datagram
                    let raw = UdpSocket::bind("127.0.0.1:0").unwrap();
                    if let Err(re) = raw.send_to(m.as_bytes(), addr) {
                        if re.kind() != e.kind() {
                            add("C13", "returns-socket-error", format!("a {}-byte datagram: the socket's error is {:?} but emit returned {:?}", m.len(), re.kind(), e.kind()));
                        }
                    }
                }
            }
        }
    }
    let st = sink.stats();
    if st.packets_sent != okp || st.bytes_sent != okb || st.packets_dropped != errp || st.bytes_dropped != errb {
        add("C14", "packets", format!("stats {:?} but the emits returned Ok for {} datagrams / {} bytes and Err for {} datagrams / {} bytes", st, okp, okb, errp, errb));
    }
    json!({"violations": viol})
}

/// Concurrent emitters on one unbuffered UDP sink: the counters must be exact. A schedule found by the solver cannot be
/// forced on real threads without hooks, so the replay stresses the same code and looks for the lost update.
fn stats_concurrent(sc: &Value) -> Value {
    let threads = sc["threads"].as_u64().unwrap_or(2).max(2) as usize * 4;
    let server = UdpSocket::bind("127.0.0.1:0").unwrap();
    let addr = server.local_addr().unwrap();
    let mut viol: Vec<Value> = vec![];
    for round in 0..30 {
        let sink = Arc::new(UdpMetricSink::from(addr, UdpSocket::bind("127.0.0.1:0").unwrap()).unwrap());
        let per = 20_000usize;
        let mut hs = vec![];
        for t in 0..threads {
            let s = sink.clone();
            hs.push(std::thread::spawn(move || {
                let m = metric(t, 3 + t);
                let (mut okb, mut okp, mut eb, mut ep) = (0u64, 0u64, 0u64, 0u64);
                for _ in 0..per {
                    match s.emit(&m) {
                        Ok(n) => {
                            okb += n as u64;
                            okp += 1;
                        }
                        Err(_) => {
                            eb += m.len() as u64;
                            ep += 1;
                        }
                    }
                }
                (okb, okp, eb, ep)
            }));
        }
        let mut tot = (0u64, 0u64, 0u64, 0u64);
        for h in hs {
            let r = h.join().unwrap();
            tot = (tot.0 + r.0, tot.1 + r.1, tot.2 + r.2, tot.3 + r.3);
        }
        let st = sink.stats();
        if (st.bytes_sent, st.packets_sent, st.bytes_dropped, st.packets_dropped) != tot {
            viol.push(json!({"prop": "C14", "clause": "concurrent-exact", "detail": format!(
                "round {}: {} threads x {} emits: stats {:?} but the emits returned Ok for {} bytes / {} packets and Err for {} bytes / {} packets",
                round, threads, per, st, tot.0, tot.1, tot.2, tot.3)}));
            break;
        }
    }
    json!({"violations": viol})
}

/// C12: many threads emitting through one shared buffered sink; the datagram stream must still be whole lines,
/// every acknowledged metric present exactly once, each thread's metrics in its program order.
pub fn c12_stress(sc: &Value) -> Value {
    use cadence::{BufferedSpyMetricSink, BufferedUdpMetricSink, BufferedUnixMetricSink};
    use std::collections::HashMap;
    use std::net::UdpSocket;
    let threads = sc["threads"].as_u64().unwrap_or(8) as usize;
    let only = sc["sink_ty"].as_str().unwrap_or("").to_string();
    let mut viol: Vec<Value> = vec![];
    let kinds: Vec<&str> = ["BufferedUnixMetricSink", "BufferedUdpMetricSink", "BufferedSpyMetricSink"].into_iter().filter(|k| only.is_empty() || *k == only).collect();
    for (round, kind) in (0..6).flat_map(|r| kinds.iter().map(move |k| (r, *k))) {
        let dir = temp_dir("c12");
        let path = dir.join("s.sock");
        let cap = [64usize, 50, 33, 128, 47, 96][round % 6];
        let stop = Arc::new(std::sync::atomic::AtomicBool::new(false));
        let st2 = stop.clone();
        let cnt = Arc::new(std::sync::atomic::AtomicUsize::new(0));
        // datagrams can be lost on a loopback UDP socket whose receive buffer overflows: presence is not demanded there
        let lossy = kind == "BufferedUdpMetricSink";
        let (sink, reader): (Arc<dyn MetricSink + Send + Sync>, std::thread::JoinHandle<Vec<Vec<u8>>>) = match kind {
            "BufferedUnixMetricSink" => {
                let server = UnixDatagram::bind(&path).unwrap();
                server.set_read_timeout(Some(Duration::from_millis(400))).unwrap();
                let sink = Arc::new(BufferedUnixMetricSink::with_capacity(&path, UnixDatagram::unbound().unwrap(), cap));
                let cnt2 = cnt.clone();
                let reader = std::thread::spawn(move || {
                    let mut got: Vec<Vec<u8>> = vec![];
                    let mut b = [0u8; 65536];
                    loop {
                        match server.recv(&mut b) {
                            Ok(k) => {
                                got.push(b[..k].to_vec());
                                cnt2.fetch_add(1, std::sync::atomic::Ordering::SeqCst);
                            }
                            Err(_) => {
                                if st2.load(std::sync::atomic::Ordering::SeqCst) {
                                    break;
                                }
                            }
                        }
                    }
                    got
                });
                (sink, reader)
            }
            "BufferedUdpMetricSink" => {
                let server = UdpSocket::bind("127.0.0.1:0").unwrap();
                server.set_read_timeout(Some(Duration::from_millis(400))).unwrap();
                let addr = server.local_addr().unwrap();
                let sink = Arc::new(BufferedUdpMetricSink::with_capacity(addr, UdpSocket::bind("127.0.0.1:0").unwrap(), cap).unwrap());
                let cnt2 = cnt.clone();
                let reader = std::thread::spawn(move || {
                    let mut got: Vec<Vec<u8>> = vec![];
                    let mut b = [0u8; 65536];
                    loop {
                        match server.recv(&mut b) {
                            Ok(k) => {
                                got.push(b[..k].to_vec());
                                cnt2.fetch_add(1, std::sync::atomic::Ordering::SeqCst);
                            }
                            Err(_) => {
                                if st2.load(std::sync::atomic::Ordering::SeqCst) {
                                    break;
                                }
                            }
                        }
                    }
                    got
                });
                (sink, reader)
            }
            _ => {
                let (rx, spy) = BufferedSpyMetricSink::with_capacity(None, Some(cap));
                let sink = Arc::new(spy);
                let cnt2 = cnt.clone();
                let reader = std::thread::spawn(move || {
                    let mut got: Vec<Vec<u8>> = vec![];
                    loop {
                        match rx.recv_timeout(Duration::from_millis(400)) {
                            Ok(v) => {
                                got.push(v);
                                cnt2.fetch_add(1, std::sync::atomic::Ordering::SeqCst);
                            }
                            Err(_) => {
                                if st2.load(std::sync::atomic::Ordering::SeqCst) {
                                    break;
                                }
                            }
                        }
                    }
                    got
                });
                (sink, reader)
            }
        };
        let per = if lossy { 150usize } else { 400usize };
        let mut hs = vec![];
        for t in 0..threads {
            let s = sink.clone();
            hs.push(std::thread::spawn(move || {
                let mut acked = vec![];
                let mut panicked = false;
                for i in 0..per {
                    // lengths vary so that exact fits happen
                    let pad: String = std::iter::repeat('x').take((i * 7 + t * 3) % 23).collect();
                    let m = format!("t{}.n{}{}:1|c", t, i, pad);
                    let r = std::panic::catch_unwind(std::panic::AssertUnwindSafe(|| s.emit(&m)));
                    match r {
                        Ok(Ok(_)) => acked.push(m),
                        Ok(Err(_)) => {}
                        Err(_) => {
                            panicked = true;
                            break;
                        }
                    }
                }
                (acked, panicked)
            }));
        }
        // a thread flushing concurrently with the emitters
        let emitting = Arc::new(std::sync::atomic::AtomicBool::new(true));
        let (s_f, e_f) = (sink.clone(), emitting.clone());
        let flusher = std::thread::spawn(move || {
            while e_f.load(std::sync::atomic::Ordering::SeqCst) {
                let _ = std::panic::catch_unwind(std::panic::AssertUnwindSafe(|| s_f.flush()));
                std::thread::yield_now();
            }
        });
        let mut acked_all: Vec<Vec<String>> = vec![];
        let mut any_panic = false;
        for h in hs {
            let (a, p) = h.join().unwrap();
            acked_all.push(a);
            any_panic |= p;
        }
        emitting.store(false, std::sync::atomic::Ordering::SeqCst);
        let _ = flusher.join();
        let fl = std::panic::catch_unwind(std::panic::AssertUnwindSafe(|| sink.flush()));
        std::thread::sleep(Duration::from_millis(300));
        // everything acknowledged must be on the wire now; what only leaves when the sink is dropped was stuck behind an Ok flush
        let n_before_drop = cnt.load(std::sync::atomic::Ordering::SeqCst);
        let final_flush_ok = matches!(fl, Ok(Ok(())));
        drop(sink);
        std::thread::sleep(Duration::from_millis(200));
        stop.store(true, std::sync::atomic::Ordering::SeqCst);
        let got = reader.join().unwrap();
        if final_flush_ok && got.len() > n_before_drop {
            let late: Vec<String> = got[n_before_drop..].iter().map(|d| String::from_utf8_lossy(d).to_string()).collect();
            let acked_flat: std::collections::HashSet<&String> = acked_all.iter().flatten().collect();
            let stuck: Vec<&str> = late.iter().flat_map(|t| t.split('\n')).filter(|l| !l.is_empty() && acked_flat.contains(&l.to_string())).collect();
            if !stuck.is_empty() {
                for prop in ["C12", "C06"] {
                    viol.push(json!({"prop": prop, "clause": "flush-leaves-acked-buffered", "detail": format!(
                        "round {} ({}, capacity {}): flush() returned Ok after all emitters finished, yet {} acknowledged metric(s) (e.g. {:?}) only left the sink when it was dropped",
                        round, kind, cap, stuck.len(), stuck[0])}));
                }
            }
        }
        let _ = std::fs::remove_dir_all(&dir);
        if any_panic || fl.is_err() {
            viol.push(json!({"prop": "C12", "clause": "no-panic", "detail": format!("round {} ({}, capacity {}): an emit / flush panicked under concurrent use", round, kind, cap)}));
        }
        let mut seen: HashMap<String, usize> = HashMap::new();
        let mut order: Vec<String> = vec![];
        for d in got.iter() {
            let text = String::from_utf8_lossy(d).to_string();
            let whole = text.ends_with('\n') || !text.contains('\n');
            let lines: Vec<&str> = text.split('\n').collect();
            let bad_line = lines.iter().any(|l| !l.is_empty() && !(l.starts_with('t') && l.ends_with(":1|c")));
            if !whole || bad_line || (text.contains('\n') && d.len() > cap) || text.starts_with('\n') || (!text.contains('\n') && !text.is_empty() && d.len() + 1 <= cap) {
                viol.push(json!({"prop": "C12", "clause": "line-atomic", "detail": format!("round {} ({}, capacity {}): datagram {:?} is not a run of whole lines within the capacity", round, kind, cap, text)}));
                break;
            }
            for l in lines {
                if !l.is_empty() {
                    *seen.entry(l.to_string()).or_insert(0) += 1;
                    order.push(l.to_string());
                }
            }
        }
        if viol.is_empty() {
            for (t, acked) in acked_all.iter().enumerate() {
                for m in acked {
                    let n = seen.get(m).copied().unwrap_or(0);
                    if n != 1 && !(lossy && n == 0) {
                        viol.push(json!({"prop": "C12", "clause": "acknowledged-exactly-once", "detail": format!("round {}: metric {:?} acknowledged to thread {} appears {} times on the wire", round, m, t, seen.get(m).copied().unwrap_or(0))}));
                        break;
                    }
                }
                // only metrics that fit the buffer leave in program order (an oversized one is written during its own emit)
                let mine: Vec<&String> = order.iter().filter(|l| l.starts_with(&format!("t{}.", t)) && l.len() + 1 <= cap).collect();
                let idx: Vec<usize> = mine
                    .iter()
                    .filter_map(|l| l.split(".n").nth(1).map(|r| r.chars().take_while(|c| c.is_ascii_digit()).collect::<String>()).and_then(|x| x.parse().ok()))
                    .collect();
                if idx.windows(2).any(|w| w[0] > w[1]) {
                    viol.push(json!({"prop": "C12", "clause": "program-order", "detail": format!("round {}: thread {}'s metrics left out of order", round, t)}));
                }
                if !viol.is_empty() {
                    break;
                }
            }
        }
        if !viol.is_empty() {
            break;
        }
    }
    json!({"violations": viol})
}
