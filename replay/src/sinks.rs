//! Native replay for the socket sinks (C13, C14) on local sockets.
use cadence::{MetricSink, UdpMetricSink, UnixMetricSink};
use serde_json::{json, Value};
use std::net::UdpSocket;
use std::os::unix::net::UnixDatagram;
use std::path::PathBuf;
use std::sync::Arc;
use std::time::Duration;

fn temp_dir(tag: &str) -> PathBuf {
    let mut p = std::env::temp_dir();
    p.push(format!("verif-replay-{}-{}-{:?}", tag, std::process::id(), std::thread::current().id()));
    let _ = std::fs::remove_dir_all(&p);
    std::fs::create_dir_all(&p).unwrap();
    p
}

fn metric(i: usize, len: usize) -> String {
    let c = (b'a' + (i % 26) as u8) as char;
    std::iter::repeat(c).take(len.max(1)).collect()
}

pub fn replay(sc: &Value) -> Value {
    match sc["sink"].as_str().unwrap_or("") {
        "unix" => unix_unbuffered(sc),
        "udp" => udp_unbuffered(sc),
        "stats-concurrent" => stats_concurrent(sc),
        other => json!({"error": format!("unknown sink scenario {}", other)}),
    }
}

fn unix_unbuffered(sc: &Value) -> Value {
    let lens: Vec<usize> = sc["lens"].as_array().map(|a| a.iter().map(|x| x.as_u64().unwrap_or(1) as usize).collect()).unwrap_or_default();
    let script: Vec<String> = sc["script"].as_array().map(|a| a.iter().map(|x| x.as_str().unwrap_or("ok").to_string()).collect()).unwrap_or_default();
    let dir = temp_dir("unix");
    let path = dir.join("s.sock");
    let mut server = Some(UnixDatagram::bind(&path).unwrap());
    server.as_ref().unwrap().set_read_timeout(Some(Duration::from_millis(300))).unwrap();
    let client = UnixDatagram::unbound().unwrap();
    let nonblocking = script.iter().any(|s| s == "err:WouldBlock");
    client.set_nonblocking(nonblocking).unwrap();
    let filler = client.try_clone().unwrap();
    let sink = UnixMetricSink::from(&path, client);
    let mut viol: Vec<Value> = vec![];
    let mut add = |prop: &str, clause: &str, detail: String| viol.push(json!({"prop": prop, "clause": clause, "detail": detail}));
    let mut log = vec![];
    let (mut okp, mut okb, mut errp, mut errb) = (0u64, 0u64, 0u64, 0u64);
    for (i, len) in lens.iter().enumerate() {
        let want = script.get(i).cloned().unwrap_or_else(|| "ok".to_string());
        let m = metric(i, *len);
        let mut arranged_fail = false;
        match want.as_str() {
            "ok" => {
                if let Some(s) = &server {
                    // make room: drain whatever is queued
                    s.set_nonblocking(true).unwrap();
                    let mut b = [0u8; 65536];
                    while s.recv(&mut b).is_ok() {}
                    s.set_nonblocking(false).unwrap();
                } else {
                    return json!({"error": "cannot realise an accepting socket after the server was removed"});
                }
            }
            "err:WouldBlock" => {
                if server.is_none() {
                    return json!({"error": "cannot realise WouldBlock without a server"});
                }
                let pad = vec![b'#'; 64];
                let mut k = 0;
                loop {
                    match filler.send_to(&pad, &path) {
                        Ok(_) => k += 1,
                        Err(e) if e.kind() == std::io::ErrorKind::WouldBlock => break,
                        Err(e) => return json!({"error": format!("filling the queue failed: {}", e)}),
                    }
                    if k > 1_000_000 {
                        return json!({"error": "receive queue never filled"});
                    }
                }
                arranged_fail = true;
            }
            "err:ConnectionRefused" | "err:NotFound" | "err:Other" | "err:NotConnected" => {
                server = None;
                let _ = std::fs::remove_file(&path);
                arranged_fail = true;
            }
            other => return json!({"error": format!("cannot realise socket outcome {}", other)}),
        }
        let r = sink.emit(&m);
        log.push(format!("emit#{} want={} -> {:?}", i, want, r.as_ref().map_err(|e| e.kind())));
        match (&r, arranged_fail) {
            (Ok(n), false) => {
                okp += 1;
                okb += *n as u64;
                if *n != m.len() {
                    add("C13", "returns-socket-result", format!("emit returned Ok({}) for a datagram of {} bytes", n, m.len()));
                }
                let mut b = [0u8; 65536];
                match server.as_ref().unwrap().recv(&mut b) {
                    Ok(k) => {
                        if &b[..k] != m.as_bytes() {
                            add("C13", "payload", format!("datagram on the wire {:?} differs from the metric {:?}", String::from_utf8_lossy(&b[..k]), m));
                        }
                    }
                    Err(e) => add("C13", "one-datagram-per-emit", format!("emit returned Ok but no datagram arrived: {}", e)),
                }
            }
            (Ok(n), true) => {
                add("C13", "returns-socket-error", format!("the socket refused the datagram ({}) but emit returned Ok({})", want, n));
                add("C14", "packets", format!("the socket refused the datagram ({}) but emit reported success", want));
                errp += 1;
                errb += m.len() as u64;
            }
            (Err(_), true) => {
                errp += 1;
                errb += m.len() as u64;
            }
            (Err(e), false) => add("C13", "returns-socket-result", format!("socket should accept but emit failed: {}", e)),
        }
    }
    let st = sink.stats();
    if st.packets_sent != okp || st.packets_dropped != errp {
        add("C14", "packets", format!("packets_sent={} packets_dropped={} but {} datagrams were accepted and {} refused", st.packets_sent, st.packets_dropped, okp, errp));
    }
    if st.bytes_sent != okb || st.bytes_dropped != errb {
        add("C14", "bytes", format!("bytes_sent={} bytes_dropped={} but accepted datagrams total {} bytes and refused ones {} bytes", st.bytes_sent, st.bytes_dropped, okb, errb));
    }
    let _ = std::fs::remove_dir_all(&dir);
    json!({"violations": viol, "log": log})
}

fn udp_unbuffered(sc: &Value) -> Value {
    let lens: Vec<usize> = sc["lens"].as_array().map(|a| a.iter().map(|x| x.as_u64().unwrap_or(1) as usize).collect()).unwrap_or_default();
    let script: Vec<String> = sc["script"].as_array().map(|a| a.iter().map(|x| x.as_str().unwrap_or("ok").to_string()).collect()).unwrap_or_default();
    if script.iter().any(|s| s != "ok") {
        return json!({"error": "failing UDP sends cannot be arranged on loopback"});
    }
    let server = UdpSocket::bind("127.0.0.1:0").unwrap();
    server.set_read_timeout(Some(Duration::from_millis(300))).unwrap();
    let addr = server.local_addr().unwrap();
    let sink = UdpMetricSink::from(addr, UdpSocket::bind("127.0.0.1:0").unwrap()).unwrap();
    let mut viol: Vec<Value> = vec![];
    let mut add = |prop: &str, clause: &str, detail: String| viol.push(json!({"prop": prop, "clause": clause, "detail": detail}));
    let (mut okp, mut okb) = (0u64, 0u64);
    for (i, len) in lens.iter().enumerate() {
        let m = metric(i, (*len).min(1400));
        match sink.emit(&m) {
            Ok(n) => {
                okp += 1;
                okb += n as u64;
                if n != m.len() {
                    add("C13", "returns-socket-result", format!("emit returned Ok({}) for a datagram of {} bytes", n, m.len()));
                }
                let mut b = [0u8; 65536];
                match server.recv(&mut b) {
                    Ok(k) if &b[..k] == m.as_bytes() => {}
                    Ok(k) => add("C13", "payload", format!("datagram {:?} differs from the metric {:?}", String::from_utf8_lossy(&b[..k]), m)),
                    Err(e) => add("C13", "one-datagram-per-emit", format!("no datagram arrived: {}", e)),
                }
            }
            Err(e) => add("C13", "returns-socket-result", format!("loopback send failed: {}", e)),
        }
    }
    let st = sink.stats();
    if st.packets_sent != okp || st.bytes_sent != okb || st.packets_dropped != 0 || st.bytes_dropped != 0 {
        add("C14", "packets", format!("stats {:?} but {} datagrams / {} bytes were accepted", st, okp, okb));
    }
    json!({"violations": viol})
}

/// Concurrent emitters on one unbuffered UDP sink: the counters must be exact. A schedule found by the solver cannot be
/// forced on real threads without hooks, so the replay stresses the same code and looks for the lost update.
fn stats_concurrent(sc: &Value) -> Value {
    let threads = sc["threads"].as_u64().unwrap_or(2).max(2) as usize * 4;
    let server = UdpSocket::bind("127.0.0.1:0").unwrap();
    let addr = server.local_addr().unwrap();
    let mut viol: Vec<Value> = vec![];
    for round in 0..30 {
        let sink = Arc::new(UdpMetricSink::from(addr, UdpSocket::bind("127.0.0.1:0").unwrap()).unwrap());
        let per = 20_000usize;
        let mut hs = vec![];
        for t in 0..threads {
            let s = sink.clone();
            hs.push(std::thread::spawn(move || {
                let m = metric(t, 3 + t);
                let (mut okb, mut okp, mut eb, mut ep) = (0u64, 0u64, 0u64, 0u64);
                for _ in 0..per {
                    match s.emit(&m) {
                        Ok(n) => {
                            okb += n as u64;
                            okp += 1;
                        }
                        Err(_) => {
                            eb += m.len() as u64;
                            ep += 1;
                        }
                    }
                }
                (okb, okp, eb, ep)
            }));
        }
        let mut tot = (0u64, 0u64, 0u64, 0u64);
        for h in hs {
            let r = h.join().unwrap();
            tot = (tot.0 + r.0, tot.1 + r.1, tot.2 + r.2, tot.3 + r.3);
        }
        let st = sink.stats();
        if (st.bytes_sent, st.packets_sent, st.bytes_dropped, st.packets_dropped) != tot {
            viol.push(json!({"prop": "C14", "clause": "concurrent-exact", "detail": format!(
                "round {}: {} threads x {} emits: stats {:?} but the emits returned Ok for {} bytes / {} packets and Err for {} bytes / {} packets",
                round, threads, per, st, tot.0, tot.1, tot.2, tot.3)}));
            break;
        }
    }
    json!({"violations": viol})
}
