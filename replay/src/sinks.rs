//! Native replay for the socket sinks (C13, C14) on local sockets.
use cadence::{MetricSink, UdpMetricSink, UnixMetricSink};
use serde_json::{json, Value};
use std::net::UdpSocket;
use std::os::unix::net::UnixDatagram;
use std::path::PathBuf;
use std::sync::Arc;
use std::time::Duration;

fn temp_dir(tag: &str) -> PathBuf {
    let mut p = std::env::temp_dir();
    p.push(format!("verif-replay-{}-{}-{:?}", tag, std::process::id(), std::thread::current().id()));
    let _ = std::fs::remove_dir_all(&p);
    std::fs::create_dir_all(&p).unwrap();
    p
}

fn metric(i: usize, len: usize) -> String {
    // starts with a two-byte character when there is room, so that byte length and character count differ
    let c = (b'a' + (i % 26) as u8) as char;
    if len >= 5 {
        // leading and trailing whitespace are ordinary metric bytes (a sink that trims them changes the payload)
        let mut s = String::from(" \u{e9}");
        s.extend(std::iter::repeat(c).take(len - 4));
        s.push(' ');
        s
    } else if len >= 3 {
        let mut s = String::from("\u{e9}");
        s.extend(std::iter::repeat(c).take(len - 3));
        s.push(' ');
        s
    } else if len >= 2 {
        let mut s: String = std::iter::repeat(c).take(len - 1).collect();
        s.push(' ');
        s
    } else {
        std::iter::repeat(c).take(len).collect()
    }
}

/// C12 / C06 under contention: while another thread sits inside the sink's critical section (an oversized write blocked on a
/// full datagram queue), a flush must wait for the lock - it may not return Ok with an acknowledged metric still buffered.
pub fn c12_flush_contended(_sc: &Value) -> Value {
    use cadence::BufferedUnixMetricSink;
    let mut viol: Vec<Value> = vec![];
    let dir = temp_dir("c12-flush");
    let path = dir.join("s.sock");
    let server = UnixDatagram::bind(&path).unwrap();
    server.set_nonblocking(true).unwrap();
    // fill the receiver's queue so that the next blocking send parks
    let filler = UnixDatagram::unbound().unwrap();
    filler.set_nonblocking(true).unwrap();
    let mut filled = 0;
    while filler.send_to(b"fill", &path).is_ok() && filled < 100000 {
        filled += 1;
    }
    let sink = Arc::new(BufferedUnixMetricSink::with_capacity(&path, UnixDatagram::unbound().unwrap(), 64));
    let acked = sink.emit("a:1|c").is_ok();
    let s2 = sink.clone();
    let big = format!("big.{}:1|c", "x".repeat(100));
    let b = std::thread::spawn(move || {
        let _ = s2.emit(&big);
    });
    std::thread::sleep(Duration::from_millis(400));
    let b_blocked = !b.is_finished();
    let s3 = sink.clone();
    let flushed = Arc::new(std::sync::Mutex::new(None));
    let f2 = flushed.clone();
    let a = std::thread::spawn(move || {
        let r = s3.flush();
        *f2.lock().unwrap() = Some(r.is_ok());
    });
    std::thread::sleep(Duration::from_millis(500));
    let early = *flushed.lock().unwrap();
    // drain: everything parked can proceed now
    let mut got: Vec<String> = vec![];
    let mut buf = [0u8; 65536];
    let t = std::time::Instant::now();
    while t.elapsed() < Duration::from_millis(1500) {
        match server.recv(&mut buf) {
            Ok(k) => got.push(String::from_utf8_lossy(&buf[..k]).to_string()),
            Err(_) => {
                if b.is_finished() && a.is_finished() {
                    break;
                }
                std::thread::sleep(Duration::from_millis(5));
            }
        }
    }
    let _ = b.join();
    let _ = a.join();
    while let Ok(k) = server.recv(&mut buf) {
        got.push(String::from_utf8_lossy(&buf[..k]).to_string());
    }
    let delivered = got.iter().any(|d| d.contains("a:1|c\n"));
    if acked && b_blocked && early == Some(true) && !delivered {
        for prop in ["C12", "C06"] {
            viol.push(json!({"prop": prop, "clause": "flush-under-contention", "detail":
                "flush() returned Ok while another thread held the sink's lock (blocked in an oversized write) and the acknowledged metric \"a:1|c\" was still buffered: it never reached the socket".to_string()}));
        }
    }
    let _ = std::fs::remove_dir_all(&dir);
    json!({"violations": viol, "log": format!("filled {} b_blocked {} flush returned early {:?} delivered {}", filled, b_blocked, early, delivered)})
}

/// A buffered sink whose first flush fails (nobody listens at the path yet) must still deliver the accepted metric on the
/// next flush, or when it is dropped.
fn unix_buffered_retry(_sc: &Value) -> Value {
    use cadence::BufferedUnixMetricSink;
    let mut viol: Vec<Value> = vec![];
    for how in ["flush", "drop"] {
        let dir = temp_dir("unix-retry");
        let path = dir.join("s.sock");
        let sink = BufferedUnixMetricSink::with_capacity(&path, UnixDatagram::unbound().unwrap(), 64);
        let r1 = sink.emit("a:1|c");
        let f1 = sink.flush();
        let server = UnixDatagram::bind(&path).unwrap();
        server.set_read_timeout(Some(Duration::from_millis(300))).unwrap();
        let f2 = if how == "flush" {
            Some(sink.flush())
        } else {
            drop(sink);
            None
        };
        let mut b = [0u8; 256];
        let got = server.recv(&mut b).map(|k| String::from_utf8_lossy(&b[..k]).to_string());
        if r1.is_ok() && f1.is_err() && got.as_deref().ok() != Some("a:1|c\n") {
            for prop in ["C13", "C06"] {
                viol.push(json!({"prop": prop, "clause": "remainder-sent-after-failed-flush", "detail": format!(
                    "emit Ok, first flush failed ({:?}), listener bound, then {} (result {:?}): the listener received {:?} instead of the buffered metric",
                    f1.as_ref().map_err(|e| e.kind()), how, f2.as_ref().map(|r| r.as_ref().map_err(|e| e.kind())), got.as_ref().map_err(|e| e.kind()))}));
            }
        }
        let _ = std::fs::remove_dir_all(&dir);
    }
    json!({"violations": viol})
}

pub fn replay(sc: &Value) -> Value {
    match sc["sink"].as_str().unwrap_or("") {
        "unix" => unix_unbuffered(sc),
        "udp" => udp_unbuffered(sc),
        "stats-concurrent" => stats_concurrent(sc),
        "unix-buffered-retry" => unix_buffered_retry(sc),
        other => json!({"error": format!("unknown sink scenario {}", other)}),
    }
}

fn unix_unbuffered(sc: &Value) -> Value {
    let lens: Vec<usize> = sc["lens"].as_array().map(|a| a.iter().map(|x| x.as_u64().unwrap_or(1) as usize).collect()).unwrap_or_default();
    let script: Vec<String> = sc["script"].as_array().map(|a| a.iter().map(|x| x.as_str().unwrap_or("ok").to_string()).collect()).unwrap_or_default();
    let dir = temp_dir("unix");
    let path = dir.join("s.sock");
    let mut server = Some(UnixDatagram::bind(&path).unwrap());
    server.as_ref().unwrap().set_read_timeout(Some(Duration::from_millis(300))).unwrap();
    let client = UnixDatagram::unbound().unwrap();
    let nonblocking = script.iter().any(|s| s == "err:WouldBlock");
    client.set_nonblocking(nonblocking).unwrap();
    let filler = client.try_clone().unwrap();
    let sink = UnixMetricSink::from(&path, client);
    let mut viol: Vec<Value> = vec![];
    let mut add = |prop: &str, clause: &str, detail: String| viol.push(json!({"prop": prop, "clause": clause, "detail": detail}));
    let mut log = vec![];
    let (mut okp, mut okb, mut errp, mut errb) = (0u64, 0u64, 0u64, 0u64);
    for (i, len) in lens.iter().enumerate() {
        let want = script.get(i).cloned().unwrap_or_else(|| "ok".to_string());
        let m = metric(i, *len);
        let mut arranged_fail = false;
        match want.as_str() {
            "ok" => {
                if let Some(s) = &server {
                    // make room: drain whatever is queued
                    s.set_nonblocking(true).unwrap();
                    let mut b = [0u8; 65536];
                    while s.recv(&mut b).is_ok() {}
                    s.set_nonblocking(false).unwrap();
                } else {
                    return json!({"error": "cannot realise an accepting socket after the server was removed"});
                }
            }
            "err:WouldBlock" => {
                if server.is_none() {
                    return json!({"error": "cannot realise WouldBlock without a server"});
                }
                let pad = vec![b'#'; 64];
                let mut k = 0;
                loop {
                    match filler.send_to(&pad, &path) {
                        Ok(_) => k += 1,
                        Err(e) if e.kind() == std::io::ErrorKind::WouldBlock => break,
                        Err(e) => return json!({"error": format!("filling the queue failed: {}", e)}),
                    }
                    if k > 1_000_000 {
                        return json!({"error": "receive queue never filled"});
                    }
                }
                arranged_fail = true;
            }
            "err:ConnectionRefused" | "err:NotFound" | "err:Other" | "err:NotConnected" => {
                server = None;
                let _ = std::fs::remove_file(&path);
                arranged_fail = true;
            }
            other => return json!({"error": format!("cannot realise socket outcome {}", other)}),
        }
        let r = sink.emit(&m);
        log.push(format!("emit#{} want={} -> {:?}", i, want, r.as_ref().map_err(|e| e.kind())));
        match (&r, arranged_fail) {
            (Ok(n), false) => {
                okp += 1;
                okb += *n as u64;
                if *n != m.len() {
                    add("C13", "returns-socket-result", format!("emit returned Ok({}) for a datagram of {} bytes", n, m.len()));
                }
                let mut b = [0u8; 65536];
                match server.as_ref().unwrap().recv(&mut b) {
                    Ok(k) => {
                        if &b[..k] != m.as_bytes() {
                            add("C13", "payload", format!("datagram on the wire {:?} differs from the metric {:?}", String::from_utf8_lossy(&b[..k]), m));
                        }
                    }
                    Err(e) => add("C13", "one-datagram-per-emit", format!("emit returned Ok but no datagram arrived: {}", e)),
                }
            }
            (Ok(n), true) => {
                add("C13", "returns-socket-error", format!("the socket refused the datagram ({}) but emit returned Ok({})", want, n));
                add("C14", "packets", format!("the socket refused the datagram ({}) but emit reported success", want));
                errp += 1;
                errb += m.len() as u64;
            }
            (Err(_), true) => {
                errp += 1;
                errb += m.len() as u64;
            }
            (Err(e), false) => add("C13", "returns-socket-result", format!("socket should accept but emit failed: {}", e)),
        }
    }
    let st = sink.stats();
    if st.packets_sent != okp || st.packets_dropped != errp {
        add("C14", "packets", format!("packets_sent={} packets_dropped={} but {} datagrams were accepted and {} refused", st.packets_sent, st.packets_dropped, okp, errp));
    }
    if st.bytes_sent != okb || st.bytes_dropped != errb {
        add("C14", "bytes", format!("bytes_sent={} bytes_dropped={} but accepted datagrams total {} bytes and refused ones {} bytes", st.bytes_sent, st.bytes_dropped, okb, errb));
    }
    let _ = std::fs::remove_dir_all(&dir);
    // the destination is the PATH given at construction, not the socket that happened to be bound to it then: after the
    // path is re-bound by another socket, a later emit must reach the new one
    {
        let dir2 = temp_dir("unix-rebind");
        let p2 = dir2.join("s.sock");
        let s1 = UnixDatagram::bind(&p2).unwrap();
        s1.set_read_timeout(Some(Duration::from_millis(300))).unwrap();
        let sink2 = UnixMetricSink::from(&p2, UnixDatagram::unbound().unwrap());
        let mut b = [0u8; 256];
        let first = sink2.emit("a:1|c");
        let got1 = s1.recv(&mut b).map(|k| b[..k].to_vec());
        drop(s1);
        let _ = std::fs::remove_file(&p2);
        let s2 = UnixDatagram::bind(&p2).unwrap();
        s2.set_read_timeout(Some(Duration::from_millis(300))).unwrap();
        let second = sink2.emit("b:1|c");
        let got2 = s2.recv(&mut b).map(|k| b[..k].to_vec());
        if first.is_err() || got1.as_ref().ok().map(|v| v.as_slice()) != Some(&b"a:1|c"[..]) {
            add("C13", "destination", format!("plain emit to a bound path: result {:?}, datagram {:?}", first.map_err(|e| e.kind()), got1.map_err(|e| e.kind())));
        } else if second.is_err() || got2.as_ref().ok().map(|v| v.as_slice()) != Some(&b"b:1|c"[..]) {
            add("C13", "destination", format!(
                "after the path was re-bound by another socket the emit returned {:?} and the new socket received {:?} (the sink follows the old socket, not the path it was given)",
                second.map_err(|e| e.kind()), got2.map(|v| String::from_utf8_lossy(&v).to_string()).map_err(|e| e.kind())));
        }
        let _ = std::fs::remove_dir_all(&dir2);
    }
    json!({"violations": viol, "log": log})
}

fn udp_unbuffered(sc: &Value) -> Value {
    let lens: Vec<usize> = sc["lens"].as_array().map(|a| a.iter().map(|x| x.as_u64().unwrap_or(1) as usize).collect()).unwrap_or_default();
    let script: Vec<String> = sc["script"].as_array().map(|a| a.iter().map(|x| x.as_str().unwrap_or("ok").to_string()).collect()).unwrap_or_default();
    if script.iter().any(|s| s != "ok") {
        return json!({"error": "failing UDP sends cannot be arranged on loopback"});
    }
    let server = UdpSocket::bind("127.0.0.1:0").unwrap();
    server.set_read_timeout(Some(Duration::from_millis(300))).unwrap();
    let addr = server.local_addr().unwrap();
    // a second address after the first: the sink must use the FIRST resolved address
    let decoy = UdpSocket::bind("127.0.0.1:0").unwrap();
    let addrs = [addr, decoy.local_addr().unwrap()];
    let sink = UdpMetricSink::from(&addrs[..], UdpSocket::bind("127.0.0.1:0").unwrap()).unwrap();
    let mut viol: Vec<Value> = vec![];
    let mut add = |prop: &str, clause: &str, detail: String| viol.push(json!({"prop": prop, "clause": clause, "detail": detail}));
    let (mut okp, mut okb) = (0u64, 0u64);
    for (i, len) in lens.iter().enumerate() {
        let m = metric(i, (*len).min(1400));
        match sink.emit(&m) {
            Ok(n) => {
                okp += 1;
                okb += n as u64;
                if n != m.len() {
                    add("C13", "returns-socket-result", format!("emit returned Ok({}) for a datagram of {} bytes", n, m.len()));
                }
                let mut b = [0u8; 65536];
                match server.recv(&mut b) {
                    Ok(k) if &b[..k] == m.as_bytes() => {}
                    Ok(k) => add("C13", "payload", format!("datagram {:?} differs from the metric {:?}", String::from_utf8_lossy(&b[..k]), m)),
                    Err(e) => add("C13", "destination", format!("no datagram arrived at the first resolved address: {}", e)),
                }
            }
            Err(e) => add("C13", "returns-socket-result", format!("loopback send failed: {}", e)),
        }
    }
    let st = sink.stats();
    if st.packets_sent != okp || st.bytes_sent != okb || st.packets_dropped != 0 || st.bytes_dropped != 0 {
        add("C14", "packets", format!("stats {:?} but {} datagrams / {} bytes were accepted", st, okp, okb));
    }
    json!({"violations": viol})
}

/// Concurrent emitters on one unbuffered UDP sink: the counters must be exact. A schedule found by the solver cannot be
/// forced on real threads without hooks, so the replay stresses the same code and looks for the lost update.
fn stats_concurrent(sc: &Value) -> Value {
    let threads = sc["threads"].as_u64().unwrap_or(2).max(2) as usize * 4;
    let server = UdpSocket::bind("127.0.0.1:0").unwrap();
    let addr = server.local_addr().unwrap();
    let mut viol: Vec<Value> = vec![];
    for round in 0..30 {
        let sink = Arc::new(UdpMetricSink::from(addr, UdpSocket::bind("127.0.0.1:0").unwrap()).unwrap());
        let per = 20_000usize;
        let mut hs = vec![];
        for t in 0..threads {
            let s = sink.clone();
            hs.push(std::thread::spawn(move || {
                let m = metric(t, 3 + t);
                let (mut okb, mut okp, mut eb, mut ep) = (0u64, 0u64, 0u64, 0u64);
                for _ in 0..per {
                    match s.emit(&m) {
                        Ok(n) => {
                            okb += n as u64;
                            okp += 1;
                        }
                        Err(_) => {
                            eb += m.len() as u64;
                            ep += 1;
                        }
                    }
                }
                (okb, okp, eb, ep)
            }));
        }
        let mut tot = (0u64, 0u64, 0u64, 0u64);
        for h in hs {
            let r = h.join().unwrap();
            tot = (tot.0 + r.0, tot.1 + r.1, tot.2 + r.2, tot.3 + r.3);
        }
        let st = sink.stats();
        if (st.bytes_sent, st.packets_sent, st.bytes_dropped, st.packets_dropped) != tot {
            viol.push(json!({"prop": "C14", "clause": "concurrent-exact", "detail": format!(
                "round {}: {} threads x {} emits: stats {:?} but the emits returned Ok for {} bytes / {} packets and Err for {} bytes / {} packets",
                round, threads, per, st, tot.0, tot.1, tot.2, tot.3)}));
            break;
        }
    }
    json!({"violations": viol})
}

/// C12: many threads emitting through one shared buffered sink; the datagram stream must still be whole lines,
/// every acknowledged metric present exactly once, each thread's metrics in its program order.
pub fn c12_stress(sc: &Value) -> Value {
    use cadence::{BufferedSpyMetricSink, BufferedUdpMetricSink, BufferedUnixMetricSink};
    use std::collections::HashMap;
    use std::net::UdpSocket;
    let threads = sc["threads"].as_u64().unwrap_or(8) as usize;
    let only = sc["sink_ty"].as_str().unwrap_or("").to_string();
    let mut viol: Vec<Value> = vec![];
    let kinds: Vec<&str> = ["BufferedUnixMetricSink", "BufferedUdpMetricSink", "BufferedSpyMetricSink"].into_iter().filter(|k| only.is_empty() || *k == only).collect();
    for (round, kind) in (0..6).flat_map(|r| kinds.iter().map(move |k| (r, *k))) {
        let dir = temp_dir("c12");
        let path = dir.join("s.sock");
        let cap = [64usize, 50, 33, 128, 47, 96][round % 6];
        let stop = Arc::new(std::sync::atomic::AtomicBool::new(false));
        let st2 = stop.clone();
        // datagrams can be lost on a loopback UDP socket whose receive buffer overflows: presence is not demanded there
        let lossy = kind == "BufferedUdpMetricSink";
        let (sink, reader): (Arc<dyn MetricSink + Send + Sync>, std::thread::JoinHandle<Vec<Vec<u8>>>) = match kind {
            "BufferedUnixMetricSink" => {
                let server = UnixDatagram::bind(&path).unwrap();
                server.set_read_timeout(Some(Duration::from_millis(400))).unwrap();
                let sink = Arc::new(BufferedUnixMetricSink::with_capacity(&path, UnixDatagram::unbound().unwrap(), cap));
                let reader = std::thread::spawn(move || {
                    let mut got: Vec<Vec<u8>> = vec![];
                    let mut b = [0u8; 65536];
                    loop {
                        match server.recv(&mut b) {
                            Ok(k) => got.push(b[..k].to_vec()),
                            Err(_) => {
                                if st2.load(std::sync::atomic::Ordering::SeqCst) {
                                    break;
                                }
                            }
                        }
                    }
                    got
                });
                (sink, reader)
            }
            "BufferedUdpMetricSink" => {
                let server = UdpSocket::bind("127.0.0.1:0").unwrap();
                server.set_read_timeout(Some(Duration::from_millis(400))).unwrap();
                let addr = server.local_addr().unwrap();
                let sink = Arc::new(BufferedUdpMetricSink::with_capacity(addr, UdpSocket::bind("127.0.0.1:0").unwrap(), cap).unwrap());
                let reader = std::thread::spawn(move || {
                    let mut got: Vec<Vec<u8>> = vec![];
                    let mut b = [0u8; 65536];
                    loop {
                        match server.recv(&mut b) {
                            Ok(k) => got.push(b[..k].to_vec()),
                            Err(_) => {
                                if st2.load(std::sync::atomic::Ordering::SeqCst) {
                                    break;
                                }
                            }
                        }
                    }
                    got
                });
                (sink, reader)
            }
            _ => {
                let (rx, spy) = BufferedSpyMetricSink::with_capacity(None, Some(cap));
                let sink = Arc::new(spy);
                let reader = std::thread::spawn(move || {
                    let mut got: Vec<Vec<u8>> = vec![];
                    loop {
                        match rx.recv_timeout(Duration::from_millis(400)) {
                            Ok(v) => got.push(v),
                            Err(_) => {
                                if st2.load(std::sync::atomic::Ordering::SeqCst) {
                                    break;
                                }
                            }
                        }
                    }
                    got
                });
                (sink, reader)
            }
        };
        let per = if lossy { 150usize } else { 400usize };
        let mut hs = vec![];
        for t in 0..threads {
            let s = sink.clone();
            hs.push(std::thread::spawn(move || {
                let mut acked = vec![];
                let mut panicked = false;
                for i in 0..per {
                    // lengths vary so that exact fits happen
                    let pad: String = std::iter::repeat('x').take((i * 7 + t * 3) % 23).collect();
                    let m = format!("t{}.n{}{}:1|c", t, i, pad);
                    let r = std::panic::catch_unwind(std::panic::AssertUnwindSafe(|| s.emit(&m)));
                    match r {
                        Ok(Ok(_)) => acked.push(m),
                        Ok(Err(_)) => {}
                        Err(_) => {
                            panicked = true;
                            break;
                        }
                    }
                }
                (acked, panicked)
            }));
        }
        let mut acked_all: Vec<Vec<String>> = vec![];
        let mut any_panic = false;
        for h in hs {
            let (a, p) = h.join().unwrap();
            acked_all.push(a);
            any_panic |= p;
        }
        let fl = std::panic::catch_unwind(std::panic::AssertUnwindSafe(|| sink.flush()));
        std::thread::sleep(Duration::from_millis(300));
        stop.store(true, std::sync::atomic::Ordering::SeqCst);
        let got = reader.join().unwrap();
        let _ = std::fs::remove_dir_all(&dir);
        if any_panic || fl.is_err() {
            viol.push(json!({"prop": "C12", "clause": "no-panic", "detail": format!("round {} ({}, capacity {}): an emit / flush panicked under concurrent use", round, kind, cap)}));
        }
        let mut seen: HashMap<String, usize> = HashMap::new();
        let mut order: Vec<String> = vec![];
        for d in got.iter() {
            let text = String::from_utf8_lossy(d).to_string();
            let whole = text.ends_with('\n') || !text.contains('\n');
            let lines: Vec<&str> = text.split('\n').collect();
            let bad_line = lines.iter().any(|l| !l.is_empty() && !(l.starts_with('t') && l.ends_with(":1|c")));
            if !whole || bad_line || (text.contains('\n') && d.len() > cap) || text.starts_with('\n') || (!text.contains('\n') && !text.is_empty() && d.len() + 1 <= cap) {
                viol.push(json!({"prop": "C12", "clause": "line-atomic", "detail": format!("round {} ({}, capacity {}): datagram {:?} is not a run of whole lines within the capacity", round, kind, cap, text)}));
                break;
            }
            for l in lines {
                if !l.is_empty() {
                    *seen.entry(l.to_string()).or_insert(0) += 1;
                    order.push(l.to_string());
                }
            }
        }
        if viol.is_empty() {
            for (t, acked) in acked_all.iter().enumerate() {
                for m in acked {
                    let n = seen.get(m).copied().unwrap_or(0);
                    if n != 1 && !(lossy && n == 0) {
                        viol.push(json!({"prop": "C12", "clause": "acknowledged-exactly-once", "detail": format!("round {}: metric {:?} acknowledged to thread {} appears {} times on the wire", round, m, t, seen.get(m).copied().unwrap_or(0))}));
                        break;
                    }
                }
                // only metrics that fit the buffer leave in program order (an oversized one is written during its own emit)
                let mine: Vec<&String> = order.iter().filter(|l| l.starts_with(&format!("t{}.", t)) && l.len() + 1 <= cap).collect();
                let idx: Vec<usize> = mine
                    .iter()
                    .filter_map(|l| l.split(".n").nth(1).map(|r| r.chars().take_while(|c| c.is_ascii_digit()).collect::<String>()).and_then(|x| x.parse().ok()))
                    .collect();
                if idx.windows(2).any(|w| w[0] > w[1]) {
                    viol.push(json!({"prop": "C12", "clause": "program-order", "detail": format!("round {}: thread {}'s metrics left out of order", round, t)}));
                }
                if !viol.is_empty() {
                    break;
                }
            }
        }
        if !viol.is_empty() {
            break;
        }
    }
    json!({"violations": viol})
}
