//! Native replay of one metric call (C01, C02, C03, C04, C20) against the real client, judged by a
//! reference renderer written from the property texts.
use cadence::prelude::*;
use cadence::{Metric, MetricBuilder, MetricError, MetricResult, MetricSink, StatsdClient};
use serde_json::{json, Value};
use std::io;
use std::panic::{catch_unwind, AssertUnwindSafe};
use std::sync::{Arc, Mutex};
use std::time::Duration;

#[derive(Clone)]
pub struct RecSink {
    pub lines: Arc<Mutex<Vec<String>>>,
    pub fail: bool,
    /// outcome per emit ("ok" | "err:<io::ErrorKind name>"); after the script is used up `fail` applies
    pub script: Vec<String>,
}

pub fn kind_from_name(n: &str) -> io::ErrorKind {
    match n {
        "Interrupted" => io::ErrorKind::Interrupted,
        "WouldBlock" => io::ErrorKind::WouldBlock,
        "NotFound" => io::ErrorKind::NotFound,
        "PermissionDenied" => io::ErrorKind::PermissionDenied,
        "ConnectionRefused" => io::ErrorKind::ConnectionRefused,
        "ConnectionReset" => io::ErrorKind::ConnectionReset,
        "BrokenPipe" => io::ErrorKind::BrokenPipe,
        "TimedOut" => io::ErrorKind::TimedOut,
        "WriteZero" => io::ErrorKind::WriteZero,
        "InvalidInput" => io::ErrorKind::InvalidInput,
        "InvalidData" => io::ErrorKind::InvalidData,
        "UnexpectedEof" => io::ErrorKind::UnexpectedEof,
        "AddrInUse" => io::ErrorKind::AddrInUse,
        "NotConnected" => io::ErrorKind::NotConnected,
        _ => io::ErrorKind::Other,
    }
}

impl MetricSink for RecSink {
    fn emit(&self, metric: &str) -> io::Result<usize> {
        let mut l = self.lines.lock().unwrap();
        l.push(metric.to_string());
        let step = self.script.get(l.len() - 1).cloned().unwrap_or_else(|| if self.fail { "err:Other".to_string() } else { "ok".to_string() });
        if let Some(k) = step.strip_prefix("err:") {
            Err(io::Error::new(kind_from_name(k), format!("sink-refused#{}", l.len())))
        } else {
            Ok(metric.len())
        }
    }
}

pub struct CallOutcome {
    pub result: Option<Result<String, (String, String)>>, // Ok(metric text) | Err((kind, display))
    pub panicked: Option<String>,
}

fn kind_name(e: &MetricError) -> String {
    format!("{:?}", e.kind())
}

fn outcome<T: Metric>(r: MetricResult<T>) -> Result<String, (String, String)> {
    match r {
        Ok(m) => Ok(m.as_metric_str().to_string()),
        Err(e) => Err((kind_name(&e), e.to_string())),
    }
}

struct Deco<'a> {
    tags: Vec<(Option<&'a str>, &'a str)>,
    cid: Option<&'a str>,
    ts: Option<u64>,
    rate: Option<f64>,
    quiet: bool,
}

fn finish<'m, 'c, T: Metric + From<String>>(mut mb: MetricBuilder<'m, 'c, T>, d: &'m Deco<'m>) -> Option<Result<String, (String, String)>> {
    for (k, v) in d.tags.iter() {
        mb = match k {
            Some(k) => mb.with_tag(k, v),
            None => mb.with_tag_value(v),
        };
    }
    if let Some(c) = d.cid {
        mb = mb.with_container_id(c);
    }
    if let Some(t) = d.ts {
        mb = mb.with_timestamp(t);
    }
    if let Some(r) = d.rate {
        mb = mb.with_sampling_rate(r);
    }
    if d.quiet {
        mb.send();
        None
    } else {
        Some(outcome(mb.try_send()))
    }
}

fn s<'a>(sc: &'a Value, k: &str) -> &'a str {
    sc["strings"][k].as_str().unwrap_or("")
}

fn parse_u64(v: &Value) -> u64 {
    v.as_str().and_then(|x| x.parse::<u64>().ok()).or_else(|| v.as_u64()).unwrap_or(0)
}

fn parse_i64(v: &Value) -> i64 {
    v.as_str().and_then(|x| x.parse::<i64>().ok()).or_else(|| v.as_i64()).unwrap_or(0)
}

fn parse_dur(v: &Value) -> Duration {
    Duration::new(parse_u64(&v[0]), v[1].as_u64().unwrap_or(0) as u32)
}

pub fn replay(sc: &Value) -> Value {
    let cfg = &sc["config"];
    let prefix = sc["prefix"].as_str().unwrap_or("").to_string();
    let lines = Arc::new(Mutex::new(vec![]));
    let handled: Arc<Mutex<Vec<(String, String)>>> = Arc::new(Mutex::new(vec![]));
    let fail = sc["sink"].as_str() == Some("err");
    let script: Vec<String> = sc["sink_script"].as_array().map(|a| a.iter().map(|x| x.as_str().unwrap_or("ok").to_string()).collect()).unwrap_or_default();
    let fail = script.first().map(|s| s.starts_with("err")).unwrap_or(fail);
    let sink = RecSink { lines: lines.clone(), fail, script: script.clone() };
    let h2 = handled.clone();
    let mut b = StatsdClient::builder(&prefix, sink).with_error_handler(move |e: MetricError| {
        h2.lock().unwrap().push((kind_name(&e), e.to_string()));
    });
    let dtags: Vec<String> = cfg["default_tags"].as_array().map(|a| a.iter().map(|x| x.as_str().unwrap_or("").to_string()).collect()).unwrap_or_default();
    for (i, k) in dtags.iter().enumerate() {
        if k == "kv" {
            b = b.with_tag(s(sc, &format!("d{}k", i)), s(sc, &format!("d{}v", i)));
        } else {
            b = b.with_tag_value(s(sc, &format!("d{}v", i)));
        }
    }
    if cfg["default_container_id"].as_bool() == Some(true) {
        b = b.with_container_id(s(sc, "dcid"));
    }
    let client = b.build();
    let key = s(sc, "key").to_string();
    let ctags: Vec<String> = cfg["call_tags"].as_array().map(|a| a.iter().map(|x| x.as_str().unwrap_or("").to_string()).collect()).unwrap_or_default();
    let tagk: Vec<String> = (0..ctags.len()).map(|i| s(sc, &format!("t{}k", i)).to_string()).collect();
    let tagv: Vec<String> = (0..ctags.len()).map(|i| s(sc, &format!("t{}v", i)).to_string()).collect();
    let form = cfg["form"].as_str().unwrap_or("plain").to_string();
    let deco = Deco {
        tags: ctags.iter().enumerate().map(|(i, k)| (if k == "kv" { Some(tagk[i].as_str()) } else { None }, tagv[i].as_str())).collect(),
        cid: if cfg["call_container_id"].as_bool() == Some(true) { Some(s(sc, "ccid")) } else { None },
        ts: if cfg["timestamp"].as_bool() == Some(true) { Some(parse_u64(&sc["timestamp"])) } else { None },
        rate: if cfg["rate"].as_bool() == Some(true) { Some(f64::from_bits(parse_u64(&sc["rate_bits"]))) } else { None },
        quiet: form == "quiet",
    };
    let tr = sc["entry"][0].as_str().unwrap_or("").to_string();
    let vty = sc["entry"][1].as_str().unwrap_or("").to_string();
    let vals = sc["values"].as_array().cloned().unwrap_or_default();
    let plain = form == "plain";
    let k = key.as_str();
    let c = &client;
    let d = &deco;

    macro_rules! call {
        ($plain:ident, $tagged:ident, $v:expr) => {{
            if plain {
                Some(outcome(c.$plain(k, $v)))
            } else {
                finish(c.$tagged(k, $v), d)
            }
        }};
    }
    let repeat = sc["repeat"].as_u64().unwrap_or(1).max(1) as usize;
    let mut all_viol: Vec<Value> = vec![];
    let mut log: Vec<Value> = vec![];
    for call_no in 0..repeat {
        let sent_before = lines.lock().unwrap().len();
        let handled_before = handled.lock().unwrap().len();
        // outcome of the sink for the FIRST emit of this call (the oracle needs to know whether it was refused)
        let fail = script.get(sent_before).map(|s| s.starts_with("err")).unwrap_or(fail);
        let res = catch_unwind(AssertUnwindSafe(|| -> Option<Result<String, (String, String)>> {
            match (tr.as_str(), vty.as_str()) {
                ("Counted", "i64") => call!(count, count_with_tags, parse_i64(&vals[0])),
                ("Counted", "i32") => call!(count, count_with_tags, parse_i64(&vals[0]) as i32),
                ("Counted", "u64") => call!(count, count_with_tags, parse_u64(&vals[0])),
                ("Counted", "u32") => call!(count, count_with_tags, parse_u64(&vals[0]) as u32),
                ("CountedExt", "incr") => {
                    if plain {
                        Some(outcome(c.incr(k)))
                    } else {
                        finish(c.incr_with_tags(k), d)
                    }
                }
                ("CountedExt", "decr") => {
                    if plain {
                        Some(outcome(c.decr(k)))
                    } else {
                        finish(c.decr_with_tags(k), d)
                    }
                }
                ("Timed", "u64") => call!(time, time_with_tags, parse_u64(&vals[0])),
                ("Timed", "Duration") => call!(time, time_with_tags, parse_dur(&vals[0])),
                ("Timed", "Vec<u64>") => call!(time, time_with_tags, vals.iter().map(parse_u64).collect::<Vec<u64>>()),
                ("Timed", "Vec<Duration>") => call!(time, time_with_tags, vals.iter().map(parse_dur).collect::<Vec<Duration>>()),
                ("Gauged", "u64") => call!(gauge, gauge_with_tags, parse_u64(&vals[0])),
                ("Gauged", "f64") => call!(gauge, gauge_with_tags, f64::from_bits(parse_u64(&vals[0]))),
                ("Metered", "u64") => call!(meter, meter_with_tags, parse_u64(&vals[0])),
                ("Histogrammed", "u64") => call!(histogram, histogram_with_tags, parse_u64(&vals[0])),
                ("Histogrammed", "f64") => call!(histogram, histogram_with_tags, f64::from_bits(parse_u64(&vals[0]))),
                ("Histogrammed", "Duration") => call!(histogram, histogram_with_tags, parse_dur(&vals[0])),
                ("Histogrammed", "Vec<u64>") => call!(histogram, histogram_with_tags, vals.iter().map(parse_u64).collect::<Vec<u64>>()),
                ("Histogrammed", "Vec<f64>") => call!(histogram, histogram_with_tags, vals.iter().map(|v| f64::from_bits(parse_u64(v))).collect::<Vec<f64>>()),
                ("Histogrammed", "Vec<Duration>") => call!(histogram, histogram_with_tags, vals.iter().map(parse_dur).collect::<Vec<Duration>>()),
                ("Distributed", "u64") => call!(distribution, distribution_with_tags, parse_u64(&vals[0])),
                ("Distributed", "f64") => call!(distribution, distribution_with_tags, f64::from_bits(parse_u64(&vals[0]))),
                ("Distributed", "Vec<u64>") => call!(distribution, distribution_with_tags, vals.iter().map(parse_u64).collect::<Vec<u64>>()),
                ("Distributed", "Vec<f64>") => call!(distribution, distribution_with_tags, vals.iter().map(|v| f64::from_bits(parse_u64(v))).collect::<Vec<f64>>()),
                ("Setted", "i64") => call!(set, set_with_tags, parse_i64(&vals[0])),
                _ => Some(Err(("unknown-entry".into(), format!("{} {}", tr, vty)))),
            }
        }));
        let (result, panicked) = match res {
            Ok(r) => (r, None),
            Err(p) => (None, Some(p.downcast_ref::<String>().cloned().or_else(|| p.downcast_ref::<&str>().map(|s| s.to_string())).unwrap_or_default())),
        };

    // ---------------- oracle -----------------------------------------------------------------
        let mut viol: Vec<Value> = vec![];
        let mut add = |prop: &str, clause: &str, detail: String| viol.push(json!({"prop": prop, "clause": clause, "detail": detail}));
        let code = match tr.as_str() {
            "Counted" | "CountedExt" => "c",
            "Timed" => "ms",
            "Gauged" => "g",
            "Metered" => "m",
            "Histogrammed" => "h",
            "Distributed" => "d",
            "Setted" => "s",
            _ => "?",
        };
        // value tokens the property demands, or None when the value must be rejected
        let mut tokens: Option<Vec<String>> = Some(vec![]);
        {
            let push = |t: &mut Option<Vec<String>>, x: String| {
                if let Some(v) = t.as_mut() {
                    v.push(x)
                }
            };
            match (tr.as_str(), vty.as_str()) {
                ("CountedExt", "incr") => push(&mut tokens, "1".into()),
                ("CountedExt", "decr") => push(&mut tokens, "-1".into()),
                (_, "i64") => push(&mut tokens, parse_i64(&vals[0]).to_string()),
                (_, "i32") => push(&mut tokens, (parse_i64(&vals[0]) as i32).to_string()),
                (_, "u64") => push(&mut tokens, parse_u64(&vals[0]).to_string()),
                (_, "u32") => push(&mut tokens, (parse_u64(&vals[0]) as u32).to_string()),
                (_, "f64") => push(&mut tokens, f64::from_bits(parse_u64(&vals[0])).to_string()),
                (_, "Vec<u64>") => vals.iter().for_each(|v| push(&mut tokens, parse_u64(v).to_string())),
                (_, "Vec<f64>") => vals.iter().for_each(|v| push(&mut tokens, f64::from_bits(parse_u64(v)).to_string())),
                (t, "Duration") | (t, "Vec<Duration>") => {
                    for v in vals.iter() {
                        let dd = parse_dur(v);
                        let n: u128 = if t == "Timed" {
                            (dd.as_secs() as u128) * 1000 + (dd.subsec_nanos() as u128) / 1_000_000
                        } else {
                            (dd.as_secs() as u128) * 1_000_000_000 + dd.subsec_nanos() as u128
                        };
                        if n > u64::MAX as u128 {
                            tokens = None;
                            break;
                        }
                        push(&mut tokens, n.to_string());
                    }
                }
                _ => {}
            }
            if let Some(v) = &tokens {
                if v.is_empty() {
                    tokens = None; // "there is at least one value"
                }
            }
        }
        let name = if prefix.is_empty() { key.clone() } else { format!("{}.{}", prefix.trim_end_matches('.'), key) };
        let expected: Option<String> = tokens.as_ref().map(|t| {
            let mut l = format!("{}:{}|{}", name, t.join(":"), code);
            if let Some(r) = deco.rate {
                l.push_str(&format!("|@{}", r));
            }
            let mut tags: Vec<String> = vec![];
            for (i, kk) in dtags.iter().enumerate() {
                if kk == "kv" {
                    tags.push(format!("{}:{}", s(sc, &format!("d{}k", i)), s(sc, &format!("d{}v", i))));
                } else {
                    tags.push(s(sc, &format!("d{}v", i)).to_string());
                }
            }
            for (kk, vv) in deco.tags.iter() {
                match kk {
                    Some(kk) => tags.push(format!("{}:{}", kk, vv)),
                    None => tags.push(vv.to_string()),
                }
            }
            if !tags.is_empty() {
                l.push_str("|#");
                l.push_str(&tags.join(","));
            }
            if let Some(cid) = deco.cid {
                l.push_str(&format!("|c:{}", cid));
            } else if cfg["default_container_id"].as_bool() == Some(true) {
                l.push_str(&format!("|c:{}", s(sc, "dcid")));
            }
            if let Some(t) = deco.ts {
                l.push_str(&format!("|T{}", t));
            }
            l
        });
        let sent: Vec<String> = lines.lock().unwrap()[sent_before..].to_vec();
        let hs: Vec<(String, String)> = handled.lock().unwrap()[handled_before..].to_vec();
        if let Some(msg) = &panicked {
            add("C20", "no-panic", format!("the call panicked: {}", msg));
            add("C03", "no-panic", format!("the call panicked: {}", msg));
        } else {
            match &expected {
                Some(exp) => {
                    if sent.len() != 1 {
                        add("C03", "exactly-one-emit", format!("valid value: the sink was handed {} strings", sent.len()));
                        add("C01", "single-emit", format!("valid value: the sink was handed {} strings: {:?}", sent.len(), sent));
                        if sent.is_empty() {
                            add("C02", "valid-is-sent", "a valid value was rejected".into());
                        }
                    }
                    if let Some(got) = sent.first() {
                        if got != exp {
                            add("C01", "line", format!("sink received {:?}, the property demands {:?}", got, exp));
                            // which part differs?
                            let head = |l: &str| l.split('|').take(2).collect::<Vec<_>>().join("|");
                            let section = |l: &str, p: &str| l.split('|').skip(2).find(|x| x.starts_with(p)).map(|x| x.to_string());
                            if head(got) != head(exp) {
                                let v = |l: &str| l.split('|').next().unwrap_or("").rsplit_once(':').map(|x| x.1.to_string());
                                if v(got) != v(exp) || got.split('|').next().map(|x| x.matches(':').count()) != exp.split('|').next().map(|x| x.matches(':').count()) {
                                    add("C02", "value-on-wire", format!("value part of {:?} differs from {:?}", got, exp));
                                }
                            }
                            if section(got, "@") != section(exp, "@") {
                                add("C02", "rate-on-wire", format!("sampling rate section of {:?} differs from {:?}", got, exp));
                            }
                            if section(got, "#") != section(exp, "#") || section(got, "c:") != section(exp, "c:") {
                                add("C04", "decoration", format!("tag / container sections of {:?} differ from {:?}", got, exp));
                            }
                        }
                        match (&result, fail) {
                            (Some(Ok(m)), false) => {
                                if m != got {
                                    add("C03", "ok-carries-sent-text", format!("Ok({:?}) but the sink received {:?}", m, got));
                                }
                            }
                            (Some(Ok(_)), true) => add("C03", "err-result", "the sink refused the metric but the call returned Ok".into()),
                            (Some(Err((k, msg))), true) => {
                                if k != "IoError" || !msg.starts_with("sink-refused#") {
                                    add("C03", "io-error-carries-source", format!("expected an I/O-kind error carrying the sink's error, got {} {:?}", k, msg));
                                }
                            }
                            (Some(Err((k, msg))), false) => add("C03", "ok-result", format!("the sink accepted the metric but the call returned Err({} {:?})", k, msg)),
                            (None, _) => {}
                        }
                        if deco.quiet {
                            if fail {
                                if hs.len() != 1 || hs[0].0 != "IoError" || !hs[0].1.starts_with("sink-refused#") {
                                    add("C03", "handler-once", format!("sink refused: handler calls {:?}", hs));
                                }
                            } else if !hs.is_empty() {
                                add("C03", "handler-silent-on-success", format!("handler invoked on success: {:?}", hs));
                            }
                        } else if !hs.is_empty() {
                            add("C03", "handler-not-used", format!("handler invoked by a non-quiet call: {:?}", hs));
                        }
                    }
                }
                None => {
                    if !sent.is_empty() {
                        add("C03", "rejected-not-sent", format!("a value that must be rejected was sent: {:?}", sent));
                        add("C02", "rejected-not-sent", format!("a value that must be rejected was sent: {:?}", sent));
                        add("C01", "rejected-not-sent", format!("a value that does not fit the wire type was sent as {:?}: the line does not parse back to the supplied value", sent));
                        if tokens.is_none() && vals.is_empty() {
                            add("C01", "at-least-one-value", format!("a line without a value was sent: {:?}", sent));
                        }
                    }
                    match &result {
                        Some(Ok(m)) => {
                            add("C03", "invalid-input-kind", format!("rejected value but the call returned Ok({:?})", m));
                            add("C02", "invalid-input-kind", format!("rejected value but the call returned Ok({:?})", m));
                        }
                        Some(Err((k, _))) if k != "InvalidInput" => {
                            add("C03", "invalid-input-kind", format!("rejected value reported as {}", k));
                            add("C02", "invalid-input-kind", format!("rejected value reported as {}", k));
                        }
                        _ => {}
                    }
                    if deco.quiet && sent.is_empty() && (hs.len() != 1 || hs[0].0 != "InvalidInput") {
                        add("C03", "handler-once", format!("value rejected: handler calls {:?}", hs));
                    }
                }
            }
        }

        let _ = (&sent, &hs);
        for mut v in viol {
            if repeat > 1 {
                v["detail"] = json!(format!("call #{}: {}", call_no + 1, v["detail"].as_str().unwrap_or("")));
            }
            all_viol.push(v);
        }
        log.push(json!({"sent": sent, "expected": expected, "result": format!("{:?}", result), "handler": format!("{:?}", hs)}));
    }
    json!({"violations": all_viol, "calls": log})
}
