//! Native replay driver: runs a scenario (JSON, produced from a solver model) against the real
//! cadence build and prints a JSON verdict. Also produces the reference tables used to validate
//! the executor's std stubs (`model-diff`).
use serde_json::{json, Value};
use std::env;
use std::fs;

mod client;
mod holder;
mod macros;
mod queue;
mod sinks;
mod writer;

#[global_allocator]
static GLOBAL: holder::GateAlloc = holder::GateAlloc;

fn main() {
    let args: Vec<String> = env::args().collect();
    if args.len() < 2 {
        eprintln!("usage: verif-replay <scenario.json> | model-diff bufwriter <max_cap> <max_ops> <max_len>");
        std::process::exit(2);
    }
    // keep panic messages of replayed code out of the verdict stream
    std::panic::set_hook(Box::new(|_| {}));
    if args[1] == "model-diff" {
        let what = args.get(2).map(|s| s.as_str()).unwrap_or("");
        let n = |i: usize, d: usize| args.get(i).and_then(|s| s.parse().ok()).unwrap_or(d);
        let v = match what {
            "bufwriter" => writer::bufwriter_table(n(3, 3), n(4, 2), n(5, 4)),
            _ => json!({"error": "unknown table"}),
        };
        println!("{}", v);
        return;
    }
    if args[1] == "selftest" {
        let seed: u64 = args.get(3).and_then(|s| s.parse().ok()).unwrap_or(1);
        let n: usize = args.get(4).and_then(|s| s.parse().ok()).unwrap_or(20000);
        let v = match args.get(2).map(|s| s.as_str()).unwrap_or("") {
            "writer" => writer::selftest(seed, n),
            _ => json!({"error": "unknown selftest"}),
        };
        println!("{}", v);
        return;
    }
    let text = fs::read_to_string(&args[1]).expect("scenario file");
    let sc: Value = serde_json::from_str(&text).expect("scenario json");
    let scenarios: Vec<Value> = if let Some(a) = sc.as_array() { a.clone() } else { vec![sc] };
    let mut outs = vec![];
    for sc in scenarios {
        let kind = sc["kind"].as_str().unwrap_or("");
        let out = match kind {
            "writer" => writer::replay(&sc),
            "client" => client::replay(&sc),
            "sink" => sinks::replay(&sc),
            "c12-stress" => sinks::c12_stress(&sc),
            "c12-flush-contended" => sinks::c12_flush_contended(&sc),
            "holder-window" => holder::replay(&sc),
            "holder-seq" => holder::replay_seq(&sc),
            "holder-loser-window" => holder::replay_loser_window(&sc),
            "holder-default-seq" => holder::replay_default_seq(&sc),
            "macro" => macros::replay(&sc),
            "queue" | "queue-capacity" | "queue-blocking-emit" | "queue-stats" | "queue-sampler" | "flush-delegation" | "queue-second-consumer" | "queue-drop-calls-sink" | "queue-emit-calls-sink" => queue::replay(&sc),
            _ => json!({"error": format!("unknown scenario kind {}", kind)}),
        };
        outs.push(out);
    }
    println!("{}", Value::Array(outs));
}
