//! Native replay of queuing-sink histories (C08, C09, C10, C11, C15, C16) with a gated wrapped sink: every
//! delivery blocks until the driver releases it with a scripted outcome, which forces the schedule found by the
//! solver at channel-operation granularity.
use cadence::{MetricSink, QueuingMetricSink};
use serde_json::{json, Value};
use std::io;
use std::sync::atomic::{AtomicBool, AtomicUsize, Ordering};
use std::sync::mpsc::{channel, Receiver, Sender};
use std::sync::{Arc, Mutex};
use std::time::{Duration, Instant};

// ---- scheduling point inside Worker::run (cfg(cadence_verif) hook in /repo): the worker thread stops right before
// it blocks in recv() until the driver hands it a permit. Only threads that first arrive during the current scenario
// are gated, so stragglers of earlier scenarios in this process pass straight through.
static GATING: AtomicBool = AtomicBool::new(false);
static GENERATION: AtomicUsize = AtomicUsize::new(0);
static ARRIVED: AtomicUsize = AtomicUsize::new(0);
static PERMITS: AtomicUsize = AtomicUsize::new(0);
thread_local! {
    static MY_GEN: std::cell::Cell<usize> = std::cell::Cell::new(usize::MAX);
}

fn sched_point(name: &'static str) {
    if name != "queuing.worker.before_recv" {
        return;
    }
    let gen = GENERATION.load(Ordering::SeqCst);
    let mine = MY_GEN.with(|g| {
        if g.get() == usize::MAX {
            g.set(gen);
        }
        g.get()
    });
    if mine != gen || !GATING.load(Ordering::SeqCst) {
        return;
    }
    ARRIVED.fetch_add(1, Ordering::SeqCst);
    let t = Instant::now();
    while GATING.load(Ordering::SeqCst) && GENERATION.load(Ordering::SeqCst) == gen && t.elapsed() < Duration::from_secs(30) {
        let p = PERMITS.load(Ordering::SeqCst);
        if p > 0 && PERMITS.compare_exchange(p, p - 1, Ordering::SeqCst, Ordering::SeqCst).is_ok() {
            return;
        }
        std::thread::sleep(Duration::from_millis(1));
    }
}

// a scripted panic of the wrapped sink can be held in mid-unwind (a guard in the sink's frame is dropped before the
// worker's own cleanup runs), so that producer steps the solver placed "between the panic and the worker's reaction" happen there
static HOLD_UNWIND: AtomicBool = AtomicBool::new(false);

struct UnwindGate;

impl Drop for UnwindGate {
    fn drop(&mut self) {
        if std::thread::panicking() {
            let t = Instant::now();
            while HOLD_UNWIND.load(Ordering::SeqCst) && t.elapsed() < Duration::from_secs(10) {
                std::thread::sleep(Duration::from_millis(1));
            }
        }
    }
}

struct Shared {
    entered: Mutex<Vec<String>>,
    finished: AtomicUsize,
    dropped: AtomicBool,
    outcomes: Mutex<Vec<String>>,
}

struct GatedSink {
    sh: Arc<Shared>,
    gate: Mutex<Receiver<String>>,
}

impl MetricSink for GatedSink {
    fn emit(&self, m: &str) -> io::Result<usize> {
        self.sh.entered.lock().unwrap().push(m.to_string());
        let outcome = { self.gate.lock().unwrap().recv_timeout(Duration::from_secs(20)).unwrap_or_else(|_| "ok".to_string()) };
        self.sh.outcomes.lock().unwrap().push(outcome.clone());
        self.sh.finished.fetch_add(1, Ordering::SeqCst);
        let _gate = UnwindGate;
        if outcome != "panic" {
            // a scripted return can be held as well: producer steps the solver placed between the sink's return and the
            // worker's next operation happen while the worker is still inside emit()
            let t = Instant::now();
            while HOLD_UNWIND.load(Ordering::SeqCst) && t.elapsed() < Duration::from_secs(10) {
                std::thread::sleep(Duration::from_millis(1));
            }
        }
        match outcome.as_str() {
            "ok" => Ok(m.len()),
            o if o.starts_with("ok:") => Ok(o[3..].parse::<usize>().unwrap_or(m.len())),
            "panic" => panic!("scripted panic of the wrapped sink"),
            other => {
                let kind = crate::client::kind_from_name(other.strip_prefix("err:").unwrap_or("Other"));
                Err(io::Error::new(kind, format!("wrapped-refused#{}", m)))
            }
        }
    }
}

impl Drop for GatedSink {
    fn drop(&mut self) {
        self.sh.dropped.store(true, Ordering::SeqCst);
    }
}

fn wait_until<F: Fn() -> bool>(f: F, ms: u64) -> bool {
    let t = Instant::now();
    while t.elapsed() < Duration::from_millis(ms) {
        if f() {
            return true;
        }
        std::thread::sleep(Duration::from_millis(2));
    }
    f()
}

/// Probes for the static findings: does the queue ever hold more than its capacity; can emit block.
fn probe(sc: &Value) -> Value {
    let mut viol: Vec<Value> = vec![];
    let kind = sc["kind"].as_str().unwrap_or("");
    if kind == "queue-capacity" {
        for c in sc["probe"].as_array().cloned().unwrap_or_default() {
            let c = c.as_u64().unwrap_or(1) as usize;
            let sh = Arc::new(Shared { entered: Mutex::new(vec![]), finished: AtomicUsize::new(0), dropped: AtomicBool::new(false), outcomes: Mutex::new(vec![]) });
            let (tx, rx) = channel::<String>();
            let mut b = QueuingMetricSink::builder();
            for step in sc["builder_order"].as_str().unwrap_or("ch").chars() {
                if step == 'c' {
                    b = b.with_capacity(c);
                }
                if step == 'h' && sc["handler"].as_bool() == Some(true) {
                    b = b.with_error_handler(|_e: io::Error| {});
                }
            }
            let q = b.build(GatedSink { sh: sh.clone(), gate: Mutex::new(rx) });
            let _ = q.emit("first:1|c");
            let _ = wait_until(|| sh.entered.lock().unwrap().len() >= 1, 1500);
            // the worker now sits in the wrapped sink: the queue itself is empty and must take exactly `c` more
            let mut ok = 0;
            for i in 0..(c + 20) {
                if q.emit(&format!("m{}:1|c", i)).is_ok() {
                    ok += 1;
                }
            }
            if ok != c {
                viol.push(json!({"prop": "C10", "clause": "channel-capacity", "detail": format!("capacity {}: the queue accepted {} metrics while the wrapped sink was blocked", c, ok)}));
            }
            for _ in 0..(c + 30) {
                let _ = tx.send("ok".to_string());
            }
            std::mem::forget(tx);
        }
        // racing producers: the capacity must hold for every interleaving of concurrent emits, not only sequentially
        if viol.is_empty() {
            let big = "x".repeat(256 * 1024);
            'rounds: for round in 0..150 {
                let sh = Arc::new(Shared { entered: Mutex::new(vec![]), finished: AtomicUsize::new(0), dropped: AtomicBool::new(false), outcomes: Mutex::new(vec![]) });
                let (tx, rx) = channel::<String>();
                let mut b = QueuingMetricSink::builder();
                for step in sc["builder_order"].as_str().unwrap_or("ch").chars() {
                    if step == 'c' {
                        b = b.with_capacity(1);
                    }
                    if step == 'h' && sc["handler"].as_bool() == Some(true) {
                        b = b.with_error_handler(|_e: io::Error| {});
                    }
                }
                let q = b.build(GatedSink { sh: sh.clone(), gate: Mutex::new(rx) });
                let _ = q.emit("first:1|c");
                let _ = wait_until(|| sh.entered.lock().unwrap().len() >= 1, 1500);
                let nthr = 6;
                let oks = Arc::new(AtomicUsize::new(0));
                let ready = Arc::new(AtomicUsize::new(0));
                let go = Arc::new(AtomicBool::new(false));
                let mut hs = vec![];
                for _ in 0..nthr {
                    let (q2, o2, r2, g2, m) = (q.clone(), oks.clone(), ready.clone(), go.clone(), big.clone());
                    hs.push(std::thread::spawn(move || {
                        r2.fetch_add(1, Ordering::SeqCst);
                        while !g2.load(Ordering::Acquire) {
                            std::hint::spin_loop();
                        }
                        if q2.emit(&m).is_ok() {
                            o2.fetch_add(1, Ordering::SeqCst);
                        }
                    }));
                }
                while ready.load(Ordering::SeqCst) < nthr {
                    std::thread::yield_now();
                }
                go.store(true, Ordering::Release);
                for h in hs {
                    let _ = h.join();
                }
                let n = oks.load(Ordering::SeqCst);
                for _ in 0..(nthr + 4) {
                    let _ = tx.send("ok".to_string());
                }
                std::mem::forget(tx);
                if n > 1 {
                    viol.push(json!({"prop": "C10", "clause": "channel-capacity", "detail": format!(
                        "capacity 1, wrapped sink blocked, {} producers emitting at once: {} metrics were accepted (round {})", nthr, n, round)}));
                    break 'rounds;
                }
            }
        }
    } else if kind == "queue-emit-calls-sink" {
        // C10: emit never runs the wrapped sink on the caller's thread - whatever the wrapped sink's flush/stats do
        // (block, panic), an emit into a full bounded queue returns its error promptly
        struct Hostile2 {
            sh: Arc<Shared>,
            gate: Mutex<Receiver<String>>,
            mode: &'static str,
            hold: Arc<AtomicBool>,
        }
        impl MetricSink for Hostile2 {
            fn emit(&self, m: &str) -> io::Result<usize> {
                self.sh.entered.lock().unwrap().push(m.to_string());
                let _ = self.gate.lock().unwrap().recv_timeout(Duration::from_secs(20));
                self.sh.finished.fetch_add(1, Ordering::SeqCst);
                Ok(m.len())
            }
            fn flush(&self) -> io::Result<()> {
                if self.mode == "panic" {
                    panic!("wrapped sink's flush panics");
                }
                let t = Instant::now();
                while self.hold.load(Ordering::SeqCst) && t.elapsed() < Duration::from_secs(8) {
                    std::thread::sleep(Duration::from_millis(5));
                }
                Ok(())
            }
        }
        for mode in ["panic", "block"] {
            let sh = Arc::new(Shared { entered: Mutex::new(vec![]), finished: AtomicUsize::new(0), dropped: AtomicBool::new(false), outcomes: Mutex::new(vec![]) });
            let (tx, rx) = channel::<String>();
            let hold = Arc::new(AtomicBool::new(true));
            let q = QueuingMetricSink::with_capacity(Hostile2 { sh: sh.clone(), gate: Mutex::new(rx), mode, hold: hold.clone() }, 1);
            let _ = q.emit("first:1|c");
            let _ = wait_until(|| sh.entered.lock().unwrap().len() >= 1, 1500);
            let _ = q.emit("second:1|c"); // fills the queue
            let q2 = q.clone();
            let done = Arc::new(AtomicBool::new(false));
            let d2 = done.clone();
            let h = std::thread::spawn(move || {
                let r = std::panic::catch_unwind(std::panic::AssertUnwindSafe(|| q2.emit("third:1|c").is_err()));
                d2.store(true, Ordering::SeqCst);
                r
            });
            let returned = wait_until(|| done.load(Ordering::SeqCst), 1500);
            hold.store(false, Ordering::SeqCst);
            let r = h.join().ok();
            if !returned {
                viol.push(json!({"prop": "C10", "clause": "emit-never-blocks", "detail": "emit into a full queue did not return within 1.5 s while the wrapped sink's flush was blocked (the wrapped sink runs on the caller's thread)".to_string()}));
            } else if let Some(Err(_)) = r {
                viol.push(json!({"prop": "C10", "clause": "emit-never-runs-sink", "detail": "emit into a full queue panicked with the wrapped sink's panic (the wrapped sink runs on the caller's thread)".to_string()}));
            }
            for _ in 0..6 {
                let _ = tx.send("ok".to_string());
            }
            std::mem::forget(tx);
        }
    } else if kind == "queue-drop-calls-sink" {
        // C09: dropping a handle never blocks and never panics, whatever the wrapped sink does - so it must not call into
        // the wrapped sink on the dropping thread
        struct Hostile {
            mode: &'static str,
            hold: Arc<AtomicBool>,
        }
        impl MetricSink for Hostile {
            fn emit(&self, m: &str) -> io::Result<usize> {
                Ok(m.len())
            }
            fn flush(&self) -> io::Result<()> {
                if self.mode == "panic" {
                    panic!("wrapped sink's flush panics");
                }
                let t = Instant::now();
                while self.hold.load(Ordering::SeqCst) && t.elapsed() < Duration::from_secs(8) {
                    std::thread::sleep(Duration::from_millis(5));
                }
                Ok(())
            }
            fn stats(&self) -> cadence::SinkStats {
                if self.mode == "panic" {
                    panic!("wrapped sink's stats panics");
                }
                cadence::SinkStats::default()
            }
        }
        for mode in ["panic", "block"] {
            for last in [true, false] {
                let hold = Arc::new(AtomicBool::new(true));
                let q = QueuingMetricSink::with_capacity(Hostile { mode, hold: hold.clone() }, 4);
                let keep = if last { None } else { Some(q.clone()) };
                let _ = q.emit("m:1|c");
                let done = Arc::new(AtomicBool::new(false));
                let d2 = done.clone();
                let h = std::thread::spawn(move || {
                    let r = std::panic::catch_unwind(std::panic::AssertUnwindSafe(move || drop(q)));
                    d2.store(true, Ordering::SeqCst);
                    r.is_ok()
                });
                let returned = wait_until(|| done.load(Ordering::SeqCst), 1500);
                hold.store(false, Ordering::SeqCst);
                let ok = h.join().unwrap_or(false);
                if !returned {
                    viol.push(json!({"prop": "C09", "clause": "drop-never-blocks", "detail": format!(
                        "dropping {} handle did not return within 1.5 s while the wrapped sink's flush was blocked", if last { "the last" } else { "a" })}));
                } else if !ok {
                    viol.push(json!({"prop": "C09", "clause": "drop-never-panics", "detail": format!(
                        "dropping {} handle panicked because the wrapped sink ({} mode) was called on the dropping thread", if last { "the last" } else { "a" }, mode)}));
                }
                let _ = std::panic::catch_unwind(std::panic::AssertUnwindSafe(move || drop(keep)));
            }
        }
    } else if kind == "queue-blocking-emit" {
        // two producers race for the last slot of a bounded queue whose wrapped sink never returns
        for round in 0..1500 {
            let sh = Arc::new(Shared { entered: Mutex::new(vec![]), finished: AtomicUsize::new(0), dropped: AtomicBool::new(false), outcomes: Mutex::new(vec![]) });
            let (tx, rx) = channel::<String>();
            let q = QueuingMetricSink::with_capacity(GatedSink { sh: sh.clone(), gate: Mutex::new(rx) }, 1);
            let _ = q.emit("first:1|c");
            let _ = wait_until(|| sh.entered.lock().unwrap().len() >= 1, 1500);
            let done = Arc::new(AtomicUsize::new(0));
            let go = Arc::new(AtomicBool::new(false));
            let ready = Arc::new(AtomicUsize::new(0));
            let nthr = 4;
            let mut hs = vec![];
            for t in 0..nthr {
                let (q2, d2, g2, r2) = (q.clone(), done.clone(), go.clone(), ready.clone());
                hs.push(std::thread::spawn(move || {
                    let m = format!("t{}:1|c", t);
                    r2.fetch_add(1, Ordering::SeqCst);
                    while !g2.load(Ordering::Acquire) {
                        std::hint::spin_loop();
                    }
                    let _ = q2.emit(&m);
                    d2.fetch_add(1, Ordering::SeqCst);
                }));
            }
            while ready.load(Ordering::SeqCst) < nthr {
                std::thread::yield_now();
            }
            go.store(true, Ordering::Release);
            let returned = wait_until(|| done.load(Ordering::SeqCst) == nthr, 1500);
            for _ in 0..8 {
                let _ = tx.send("ok".to_string());
            }
            std::mem::forget(tx);
            if !returned {
                viol.push(json!({"prop": "C10", "clause": "emit-never-blocks", "detail": format!("round {}: an emit did not return within 1.5 s while the wrapped sink was blocked and the queue full", round)}));
                break;
            }
            for h in hs {
                let _ = h.join();
            }
        }
    } else if kind == "queue-sampler" {
        struct Fast;
        impl MetricSink for Fast {
            fn emit(&self, m: &str) -> io::Result<usize> {
                Ok(m.len())
            }
        }
        let q = QueuingMetricSink::with_capacity(Fast, 1);
        let stop = Arc::new(AtomicBool::new(false));
        let (q2, s2) = (q.clone(), stop.clone());
        let producer = std::thread::spawn(move || {
            let mut n = 0u64;
            while !s2.load(Ordering::Relaxed) && n < 4_000_000 {
                let _ = q2.emit("m:1|c");
                n += 1;
            }
        });
        let t = Instant::now();
        let mut bad: Option<String> = None;
        while t.elapsed() < Duration::from_secs(25) && !producer.is_finished() {
            let r = std::panic::catch_unwind(std::panic::AssertUnwindSafe(|| q.queued()));
            match r {
                Err(_) => {
                    bad = Some("queued() panicked (arithmetic overflow) while a producer and the worker were running".into());
                    break;
                }
                Ok(v) => {
                    let sub = q.submitted();
                    if v > sub {
                        bad = Some(format!("queued() returned {} which exceeds submitted() = {}", v, sub));
                        break;
                    }
                }
            }
        }
        stop.store(true, Ordering::Relaxed);
        let _ = producer.join();
        if let Some(d) = bad {
            viol.push(json!({"prop": "C15", "clause": "queued-in-range", "detail": d}));
        }
    } else if kind == "queue-second-consumer" {
        // C12 through a queuing wrapper: while the worker holds m1 inside the (gated) wrapped sink and m2 is queued, no
        // call on a handle may hand m2 to the wrapped sink from another thread (it would overtake m1)
        for what in ["flush", "stats", "clone-drop", "emit"] {
            let sh = Arc::new(Shared { entered: Mutex::new(vec![]), finished: AtomicUsize::new(0), dropped: AtomicBool::new(false), outcomes: Mutex::new(vec![]) });
            let (tx, rx) = channel::<String>();
            let q = QueuingMetricSink::with_capacity(GatedSink { sh: sh.clone(), gate: Mutex::new(rx) }, 8);
            let _ = q.emit("m1:1|c");
            let _ = wait_until(|| sh.entered.lock().unwrap().len() >= 1, 1500);
            let _ = q.emit("m2:1|c");
            let q2 = q.clone();
            let w = what.to_string();
            let h = std::thread::spawn(move || match w.as_str() {
                "flush" => {
                    let _ = q2.flush();
                }
                "stats" => {
                    let _ = q2.stats();
                }
                "clone-drop" => drop(q2.clone()),
                _ => {
                    let _ = q2.emit("m3:1|c");
                }
            });
            // give the call time to (wrongly) reach the wrapped sink
            let overtook = wait_until(|| sh.entered.lock().unwrap().len() >= 2, 400);
            if overtook && sh.finished.load(Ordering::SeqCst) == 0 {
                viol.push(json!({"prop": "C12", "clause": "queue-single-consumer", "detail": format!(
                    "{}() on a handle handed {:?} to the wrapped sink from the calling thread while the worker still held \"m1:1|c\" (order not preserved)",
                    what, sh.entered.lock().unwrap().get(1))}));
                viol.push(json!({"prop": "C08", "clause": "in-order-exactly-once", "detail": format!("{}() consumed the queue on the calling thread", what)}));
                viol.push(json!({"prop": "C10", "clause": "wrapped-sink-on-caller-thread", "detail": format!("{}() ran the wrapped sink on the calling thread", what)}));
            }
            for _ in 0..6 {
                let _ = tx.send("ok".to_string());
            }
            let _ = h.join();
            std::mem::forget(tx);
        }
    } else if kind == "flush-delegation" {
        // C06: flush() on the queuing sink (any queue state) and on a client is the wrapped sink's flush(), once, with
        // its outcome
        struct Flushy {
            sh: Arc<Shared>,
            gate: Mutex<Receiver<String>>,
            flushes: Arc<AtomicUsize>,
            fail: Arc<AtomicBool>,
        }
        impl MetricSink for Flushy {
            fn emit(&self, m: &str) -> io::Result<usize> {
                self.sh.entered.lock().unwrap().push(m.to_string());
                let _ = self.gate.lock().unwrap().recv_timeout(Duration::from_secs(20));
                self.sh.finished.fetch_add(1, Ordering::SeqCst);
                Ok(m.len())
            }
            fn flush(&self) -> io::Result<()> {
                self.flushes.fetch_add(1, Ordering::SeqCst);
                if self.fail.load(Ordering::SeqCst) {
                    Err(io::Error::new(io::ErrorKind::ConnectionRefused, "flush-refused"))
                } else {
                    Ok(())
                }
            }
        }
        for handler in [false, true] {
            let sh = Arc::new(Shared { entered: Mutex::new(vec![]), finished: AtomicUsize::new(0), dropped: AtomicBool::new(false), outcomes: Mutex::new(vec![]) });
            let (tx, rx) = channel::<String>();
            let flushes = Arc::new(AtomicUsize::new(0));
            let fail = Arc::new(AtomicBool::new(false));
            let sink = Flushy { sh: sh.clone(), gate: Mutex::new(rx), flushes: flushes.clone(), fail: fail.clone() };
            let mut b = QueuingMetricSink::builder().with_capacity(8);
            if handler {
                b = b.with_error_handler(|_e: io::Error| {});
            }
            let q = b.build(sink);
            let mut expect = 0;
            let mut check = |what: &str, r: io::Result<()>, want_ok: bool, viol: &mut Vec<Value>| {
                expect += 1;
                let n = flushes.load(Ordering::SeqCst);
                if n != expect || r.is_ok() != want_ok {
                    viol.push(json!({"prop": "C06", "clause": "queuing-flush-delegates", "detail": format!(
                        "{} (handler configured: {}): flush returned {:?}, the wrapped sink's flush ran {} time(s) in total, expected {} and {}",
                        what, handler, r.map_err(|e| e.to_string()), n, expect, if want_ok { "Ok" } else { "its Err" })}));
                    expect = n;
                }
            };
            check("empty queue", q.flush(), true, &mut viol);
            let _ = q.emit("m1:1|c");
            let _ = wait_until(|| sh.entered.lock().unwrap().len() >= 1, 1500);
            let _ = q.emit("m2:1|c");
            check("worker inside the wrapped sink, one more metric queued", q.flush(), true, &mut viol);
            fail.store(true, Ordering::SeqCst);
            check("wrapped flush fails", q.flush(), false, &mut viol);
            fail.store(false, Ordering::SeqCst);
            let client = cadence::StatsdClient::from_sink("p", q.clone());
            let r = client.flush().map_err(|e| io::Error::new(io::ErrorKind::Other, e.to_string()));
            check("through StatsdClient::flush", r, true, &mut viol);
            fail.store(true, Ordering::SeqCst);
            let r = client.flush().map_err(|e| io::Error::new(io::ErrorKind::Other, e.to_string()));
            check("through StatsdClient::flush while the wrapped flush fails", r, false, &mut viol);
            fail.store(false, Ordering::SeqCst);
            for _ in 0..4 {
                let _ = tx.send("ok".to_string());
            }
            std::mem::forget(tx);
        }
    } else if kind == "queue-stats" {
        struct Counting(AtomicUsize);
        impl MetricSink for Counting {
            fn emit(&self, m: &str) -> io::Result<usize> {
                self.0.fetch_add(m.len(), Ordering::SeqCst);
                Ok(m.len())
            }
            fn stats(&self) -> cadence::SinkStats {
                cadence::SinkStats { bytes_sent: 11, packets_sent: 7, bytes_dropped: 5, packets_dropped: 3 }
            }
        }
        let mut b = QueuingMetricSink::builder().with_capacity(1);
        if sc["handler"].as_bool() == Some(true) {
            b = b.with_error_handler(|_e: io::Error| {});
        }
        let q = b.build(Counting(AtomicUsize::new(0)));
        for i in 0..6 {
            let _ = q.emit(&format!("m{}:1|c", i));
        }
        let st = q.stats();
        if (st.bytes_sent, st.packets_sent, st.bytes_dropped, st.packets_dropped) != (11, 7, 5, 3) {
            viol.push(json!({"prop": "C14", "clause": "queuing-stats-delegates", "detail": format!("stats through the queuing sink are {:?} but the wrapped sink reports (11, 7, 5, 3)", st)}));
        }
    }
    json!({"violations": viol})
}

pub fn replay(sc: &Value) -> Value {
    if sc["kind"].as_str() != Some("queue") {
        return probe(sc);
    }
    let sh = Arc::new(Shared { entered: Mutex::new(vec![]), finished: AtomicUsize::new(0), dropped: AtomicBool::new(false), outcomes: Mutex::new(vec![]) });
    let (tx, rx): (Sender<String>, Receiver<String>) = channel();
    let sink = GatedSink { sh: sh.clone(), gate: Mutex::new(rx) };
    let handled: Arc<Mutex<Vec<String>>> = Arc::new(Mutex::new(vec![]));
    let mut b = QueuingMetricSink::builder();
    let order = sc["builder_order"].as_str().unwrap_or("ch").to_string();
    for step in order.chars() {
        if step == 'c' {
            if let Some(c) = sc["capacity"].as_u64() {
                b = b.with_capacity(c as usize);
            }
        }
        if step == 'h' && sc["handler"].as_bool() == Some(true) {
            let h = handled.clone();
            b = b.with_error_handler(move |e: io::Error| h.lock().unwrap().push(e.to_string()));
        }
    }
    // capacity 0 (rendezvous): whether a try_send succeeds depends on the worker being parked in recv(), so the
    // worker is held right before every recv() and parks only where the solver's schedule parks it
    let rendezvous = sc["capacity"].as_u64() == Some(0);
    GENERATION.fetch_add(1, Ordering::SeqCst);
    ARRIVED.store(0, Ordering::SeqCst);
    PERMITS.store(0, Ordering::SeqCst);
    GATING.store(rendezvous, Ordering::SeqCst);
    cadence::verif::set_hook(Some(sched_point));
    let mut parks = 0usize;
    let mut handles: Vec<QueuingMetricSink> = vec![b.build(sink)];
    if rendezvous {
        // every violating history starts with the worker passing its stop check: let it get to the scheduling point first
        let _ = wait_until(|| ARRIVED.load(Ordering::SeqCst) >= 1, 3000);
    }
    let mut accepted: Vec<String> = vec![];
    let mut results: Vec<String> = vec![];
    let mut nemit = 0;
    let mut viol: Vec<Value> = vec![];
    let mut scripted_outcomes: Vec<String> = vec![];
    let marker_pending = false;
    let steps = sc["steps"].as_array().cloned().unwrap_or_default();
    for st in steps.iter() {
        match st["do"].as_str().unwrap_or("") {
            "emit" => {
                if handles.is_empty() {
                    return json!({"error": "emit without a live handle"});
                }
                let m = st["text"].as_str().map(|x| x.to_string()).unwrap_or_else(|| format!("m{}:1|c", nemit));
                nemit += 1;
                // with a gated sink the worker is either inside the wrapped sink or idle on an empty queue, so the
                // number of queued entries is known: accepted - taken
                std::thread::sleep(Duration::from_millis(15));
                let taken_seen = sh.entered.lock().unwrap().len();              // a lower bound of what the worker took
                let max_taken = (scripted_outcomes.len() + 1).min(accepted.len()); // it cannot get past the gate without a token
                let max_occ = accepted.len().saturating_sub(taken_seen);
                let min_occ = accepted.len().saturating_sub(max_taken.max(taken_seen));
                let cap = sc["capacity"].as_u64().map(|c| c as usize);
                let must_accept = cap.map(|c| max_occ < c).unwrap_or(true) && !rendezvous;
                let must_refuse = cap.map(|c| min_occ >= c).unwrap_or(false) && !rendezvous;
                let t = Instant::now();
                let r = handles[0].emit(&m);
                if ((r.is_ok() && must_refuse) || (r.is_err() && must_accept)) && !marker_pending {
                    viol.push(json!({"prop": "C10", "clause": "result-depends-on-room-only", "detail": format!(
                        "emit of {:?} returned {:?} although the queue held between {} and {} of {:?} entries", m, r.as_ref().map_err(|e| e.to_string()), min_occ, max_occ, sc["capacity"])}));
                }
                if t.elapsed() > Duration::from_millis(1500) {
                    viol.push(json!({"prop": "C10", "clause": "emit-never-blocks", "detail": format!("emit of {} took {:?}", m, t.elapsed())}));
                }
                match &r {
                    Ok(n) => {
                        if *n != m.len() {
                            viol.push(json!({"prop": "C10", "clause": "ok-carries-length", "detail": format!("emit returned Ok({}) for {} bytes", n, m.len())}));
                        }
                        accepted.push(m.clone());
                    }
                    Err(_) => {}
                }
                results.push(format!("{:?}", r.as_ref().map_err(|e| e.to_string())));
            }
            "clone" => {
                let c = handles[0].clone();
                handles.push(c);
            }
            "drop" => {
                let t = Instant::now();
                let h = handles.pop();
                drop(h);
                if t.elapsed() > Duration::from_millis(1500) {
                    viol.push(json!({"prop": "C09", "clause": "drop-never-blocks", "detail": format!("dropping a handle took {:?}", t.elapsed())}));
                }
            }
            "wait_at_point" => {
                // the worker has passed its stop check and stands at the scheduling point (held there while gating is on)
                let _ = wait_until(|| ARRIVED.load(Ordering::SeqCst) > parks, 3000);
            }
            "park" => {
                // the worker registers as a parked receiver now: wait until it stands at the scheduling point, let it
                // through once and give it time to block in recv()
                parks += 1;
                let _ = wait_until(|| ARRIVED.load(Ordering::SeqCst) >= parks, 3000);
                PERMITS.fetch_add(1, Ordering::SeqCst);
                let _ = wait_until(|| PERMITS.load(Ordering::SeqCst) == 0, 3000);
                std::thread::sleep(Duration::from_millis(40));
            }
            "wait_enter" => {
                let want = sh.finished.load(Ordering::SeqCst) + 1;
                let inside = wait_until(|| sh.entered.lock().unwrap().len() >= want, 1500);
                if inside {
                    // the wrapped sink holds a metric now (it stays there until the next `release`): nothing of the
                    // library is pending on the worker, so drained() must already count every metric handed over
                    if let Some(h) = handles.first() {
                        let handed = sh.entered.lock().unwrap().len();
                        let same = wait_until(|| h.drained() as usize == handed, 300);
                        if !same {
                            viol.push(json!({"prop": "C15", "clause": "drained-counts-handed", "detail": format!(
                                "drained() = {} while the wrapped sink is holding metric number {} (handed over, not yet returned)", h.drained(), handed)}));
                        }
                    }
                }
            }
            "release_unwind" => {
                HOLD_UNWIND.store(false, Ordering::SeqCst);
                std::thread::sleep(Duration::from_millis(40));
            }
            "release" => {
                let o = st["outcome"].as_str().unwrap_or("ok").to_string();
                if st["hold"].as_bool() == Some(true) {
                    HOLD_UNWIND.store(true, Ordering::SeqCst);
                }
                scripted_outcomes.push(o.clone());
                let before = sh.finished.load(Ordering::SeqCst);
                let _ = tx.send(o);
                // let the worker finish this delivery (and, after a panic, respawn) before the next scripted step
                let _ = wait_until(|| sh.finished.load(Ordering::SeqCst) > before, 1500);
                std::thread::sleep(Duration::from_millis(20));
            }
            _ => {}
        }
    }
    // the scripted part is over: from here on the worker runs freely
    HOLD_UNWIND.store(false, Ordering::SeqCst);
    GATING.store(false, Ordering::SeqCst);
    if rendezvous {
        std::thread::sleep(Duration::from_millis(60));
    }
    // liveness probe: a live handle must still get a metric through (a dead worker is otherwise unobservable)
    if let Some(h) = handles.first() {
        let m = "probe:1|c".to_string();
        if h.emit(&m).is_ok() {
            accepted.push(m);
        }
    }
    // let everything that is still queued through, successfully
    for _ in 0..(accepted.len() + 4) {
        let _ = tx.send("ok".to_string());
    }
    let all_dropped = handles.is_empty();
    let quiesced = wait_until(|| sh.entered.lock().unwrap().len() >= accepted.len() && sh.finished.load(Ordering::SeqCst) >= sh.entered.lock().unwrap().len(), 3000);
    std::thread::sleep(Duration::from_millis(100));
    let delivered = sh.entered.lock().unwrap().clone();
    let outcomes = sh.outcomes.lock().unwrap().clone();
    let mut add = |prop: &str, clause: &str, detail: String| viol.push(json!({"prop": prop, "clause": clause, "detail": detail}));
    // C08 / C11: accepted == delivered, in order, exactly once
    let np = outcomes.iter().filter(|o| *o == "panic").count();
    if delivered.len() > accepted.len() || delivered.iter().zip(accepted.iter()).any(|(d, a)| d != a) {
        add("C08", "in-order-exactly-once", format!("wrapped sink saw {:?} but the accepted metrics were {:?}", delivered, accepted));
        if np > 0 {
            add("C11", "accepted-is-delivered-despite-panics", format!("after {} panic(s) the wrapped sink saw {:?}, accepted were {:?}", np, delivered, accepted));
        }
    } else if delivered.len() < accepted.len() || !quiesced {
        let d = format!("accepted {:?} but only {:?} reached the wrapped sink", accepted, delivered);
        add("C08", "accepted-is-delivered", d.clone());
        if !all_dropped {
            add("C08", "worker-alive-while-handles-live", d.clone());
        }
        if np > 0 {
            add("C11", "accepted-is-delivered-despite-panics", d.clone());
            add("C11", "worker-alive-while-handles-live", d.clone());
        }
        if all_dropped {
            add("C09", "drained-after-last-drop", d);
        }
    }
    let nerr = outcomes.iter().filter(|o| o.starts_with("err")).count();
    let hs = handled.lock().unwrap().clone();
    if sc["handler"].as_bool() == Some(true) {
        if hs.len() != nerr {
            add("C16", "handler-once-per-error", format!("{} wrapped-sink errors but the handler was invoked {} times", nerr, hs.len()));
        }
    } else if !hs.is_empty() {
        add("C16", "no-handler-configured", "a handler was invoked although none was configured".into());
    }
    if let Some(h) = handles.first() {
        let _ = wait_until(|| h.drained() as usize >= delivered.len() && h.panics() as usize >= np, 1000);
        if h.submitted() as usize != accepted.len() {
            add("C15", "submitted-counts-ok-emits", format!("submitted() = {} but {} emits returned Ok", h.submitted(), accepted.len()));
        }
        if h.drained() as usize != delivered.len() {
            add("C15", "drained-counts-deliveries", format!("drained() = {} but {} metrics were handed over", h.drained(), delivered.len()));
        }
        if h.panics() as usize != np {
            add("C11", "panic-count", format!("panics() = {} but the wrapped sink panicked {} times", h.panics(), np));
        }
        let q = h.queued();
        if q > h.submitted() {
            add("C15", "queued-in-range", format!("queued() = {} exceeds submitted() = {}", q, h.submitted()));
        }
    }
    if all_dropped {
        let released = wait_until(|| sh.dropped.load(Ordering::SeqCst), 3000);
        if !released {
            add("C09", "wrapped-sink-released", "all handles dropped but the wrapped sink was not dropped within 3 s (worker thread still alive)".into());
            add("C09", "worker-terminates", "all handles dropped but the worker did not terminate within 3 s".into());
        }
    } else if sh.dropped.load(Ordering::SeqCst) {
        add("C09", "not-released-while-in-use", "the wrapped sink was dropped while a handle is alive".into());
    }
    json!({"violations": viol, "accepted": accepted, "delivered": delivered, "outcomes": outcomes, "results": results, "handler_calls": hs.len()})
}
