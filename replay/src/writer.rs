//! Native replay of writer histories (C05, C06, C07, C19 and the writer part of C20) against the
//! real `cadence::ext::MultiLineWriter`, judged by an oracle written from the property texts.
use serde_json::{json, Value};
use std::cell::RefCell;
use std::io::{self, Write};
use std::panic::{catch_unwind, AssertUnwindSafe};
use std::rc::Rc;

use cadence::ext::MultiLineWriter;

#[derive(Clone, Debug)]
pub struct Attempt {
    pub op: usize,
    pub bytes: Vec<u8>,
    pub ok: bool,
    pub tag: String,
}

#[derive(Default)]
pub struct Script {
    pub faults: Vec<bool>,
    pub kinds: Vec<String>,
    pub next: usize,
    pub attempts: Vec<Attempt>,
    pub cur_op: usize,
}

/// All-or-nothing underlying writer with a scripted outcome per attempt.
pub struct ScriptedWriter(pub Rc<RefCell<Script>>);

impl Write for ScriptedWriter {
    fn write(&mut self, buf: &[u8]) -> io::Result<usize> {
        let mut s = self.0.borrow_mut();
        let k = s.next;
        s.next += 1;
        let fail = s.faults.get(k).copied().unwrap_or(false);
        let tag = format!("fault#{}", k);
        let op = s.cur_op;
        s.attempts.push(Attempt { op, bytes: buf.to_vec(), ok: !fail, tag: tag.clone() });
        if fail {
            let kind = match s.kinds.get(k).map(|x| x.as_str()) {
                Some("interrupted") => io::ErrorKind::Interrupted,
                Some("wouldblock") => io::ErrorKind::WouldBlock,
                _ => io::ErrorKind::Other,
            };
            Err(io::Error::new(kind, tag))
        } else {
            Ok(buf.len())
        }
    }
    fn flush(&mut self) -> io::Result<()> {
        Ok(())
    }
}

pub fn metric_bytes(i: usize, len: usize) -> Vec<u8> {
    vec![b'a' + (i % 26) as u8; len]
}

#[derive(Clone, Debug)]
pub enum OpRes {
    WriteOk(usize),
    Err(String),
    FlushOk,
    Dropped,
    Panicked(String),
}

pub struct Outcome {
    pub results: Vec<OpRes>,
    pub attempts: Vec<Attempt>,
}

pub struct OpSpec {
    pub kind: String,
    pub len: usize,
}

pub fn parse_ops(sc: &Value) -> Vec<OpSpec> {
    sc["ops"]
        .as_array()
        .map(|a| {
            a.iter()
                .map(|o| OpSpec { kind: o["op"].as_str().unwrap_or("").to_string(), len: o["len"].as_u64().unwrap_or(0) as usize })
                .collect()
        })
        .unwrap_or_default()
}

/// Drive the real writer.
pub fn run_real(cap: usize, ending: &str, ops: &[OpSpec], faults: Vec<bool>, kinds: Vec<String>) -> Outcome {
    let script = Rc::new(RefCell::new(Script { faults, kinds, ..Default::default() }));
    let mut writer = Some(MultiLineWriter::with_ending(ScriptedWriter(script.clone()), cap, ending));
    let mut results = vec![];
    for (i, op) in ops.iter().enumerate() {
        script.borrow_mut().cur_op = i;
        let r = catch_unwind(AssertUnwindSafe(|| match op.kind.as_str() {
            "write" => {
                let m = metric_bytes(i, op.len);
                match writer.as_mut().unwrap().write(&m) {
                    Ok(n) => OpRes::WriteOk(n),
                    Err(e) => OpRes::Err(e.to_string()),
                }
            }
            "flush" => match writer.as_mut().unwrap().flush() {
                Ok(()) => OpRes::FlushOk,
                Err(e) => OpRes::Err(e.to_string()),
            },
            "drop" => {
                drop(writer.take());
                OpRes::Dropped
            }
            _ => OpRes::Panicked("bad op".into()),
        }));
        match r {
            Ok(v) => results.push(v),
            Err(p) => {
                let msg = p.downcast_ref::<String>().cloned().or_else(|| p.downcast_ref::<&str>().map(|s| s.to_string())).unwrap_or_default();
                results.push(OpRes::Panicked(msg));
                // the writer may be in an arbitrary state: stop here, leak it
                std::mem::forget(writer.take());
                break;
            }
        }
        if writer.is_none() {
            break;
        }
    }
    if let Some(w) = writer.take() {
        // scenario without explicit drop: leak so that the outcome only reflects scripted ops
        std::mem::forget(w);
    }
    let attempts = script.borrow().attempts.clone();
    Outcome { results, attempts }
}

/// Parse a payload into whole lines of known metrics; None if it is not such a concatenation.
fn parse_lines(payload: &[u8], ending: &[u8], lens: &dyn Fn(usize) -> Option<usize>, nops: usize) -> Option<Vec<usize>> {
    let mut out = vec![];
    let mut p = 0;
    while p < payload.len() {
        let letter = payload[p];
        if !(b'a'..=b'z').contains(&letter) {
            return None;
        }
        // the metric id: ops are numbered < 26 in replayed scenarios
        let id = (letter - b'a') as usize;
        if id >= nops {
            return None;
        }
        let len = lens(id)?;
        if p + len > payload.len() || payload[p..p + len].iter().any(|&c| c != letter) {
            return None;
        }
        // the run must not be longer than the metric
        p += len;
        if payload.len() < p + ending.len() || &payload[p..p + ending.len()] != ending {
            return None;
        }
        p += ending.len();
        out.push(id);
    }
    Some(out)
}

pub fn judge(cap: usize, ending: &str, ops: &[OpSpec], out: &Outcome) -> Vec<Value> {
    let e = ending.as_bytes();
    let elen = e.len();
    let mut viol: Vec<Value> = vec![];
    let mut add = |prop: &str, clause: &str, detail: String| viol.push(json!({"prop": prop, "clause": clause, "detail": detail}));
    let nops = ops.len();
    let lens = |id: usize| -> Option<usize> {
        if id < nops && ops[id].kind == "write" {
            Some(ops[id].len)
        } else {
            None
        }
    };
    let mut queue: Vec<usize> = vec![]; // accepted, not yet written
    let mut written = vec![0usize; nops];
    let mut rejected = vec![false; nops];
    let show = |b: &[u8]| String::from_utf8_lossy(b).replace('\n', "\\n").replace('\r', "\\r");

    for (i, op) in ops.iter().enumerate() {
        if i >= out.results.len() {
            break;
        }
        let res = &out.results[i];
        let atts: Vec<&Attempt> = out.attempts.iter().filter(|a| a.op == i).collect();
        let b: usize = queue.iter().map(|&q| ops[q].len + elen).sum();
        let mut sent_now: Vec<usize> = vec![];
        if let OpRes::Panicked(msg) = res {
            add("C20", "no-panic", format!("op {} ({}) panicked: {}", i, op.kind, msg));
            add("C07", "no-panic", format!("op {} ({}) panicked: {}", i, op.kind, msg));
        }
        for a in &atts {
            if a.bytes.is_empty() {
                add("C05", "non-empty-write", format!("op {}: empty socket write", i));
                continue;
            }
            let mut ids: Option<Vec<usize>>;
            let mut single = false;
            let cur_alone = op.kind == "write" && a.bytes == metric_bytes(i, op.len);
            if cur_alone && op.len + elen > cap {
                // a metric that cannot fit an empty buffer with its terminator: alone, unterminated
                single = true;
                ids = Some(vec![i]);
            } else {
                ids = parse_lines(&a.bytes, e, &lens, nops);
                if ids.is_none() && cur_alone {
                    single = true;
                    ids = Some(vec![i]);
                }
            }
            match ids {
                None => {
                    add("C05", "framing", format!("op {}: socket write \"{}\" is not a run of whole lines nor a single oversized metric", i, show(&a.bytes)));
                    if out.attempts.iter().take_while(|x| !std::ptr::eq(*x, *a)).any(|x| !x.ok) {
                        add("C07", "framing-after-failure", format!("op {}: after a failed socket write, \"{}\" is not a run of whole lines", i, show(&a.bytes)));
                    }
                }
                Some(ids) => {
                    if single {
                        if op.len + elen <= cap {
                            add("C05", "framing", format!("op {}: metric of {} bytes sent alone without terminator although it fits an empty buffer of {}", i, op.len, cap));
                            if !queue.is_empty() {
                                add("C06", "order", format!("op {}: metric {} fits the buffer but was written before the buffered metrics {:?}", i, i, queue));
                            }
                        }
                    } else {
                        if a.bytes.len() > cap {
                            add("C05", "framing", format!("op {}: datagram of {} bytes exceeds capacity {}", i, a.bytes.len(), cap));
                        }
                    }
                    // must be the queue (in order, from the front), optionally followed by this op's metric
                    let mut expect: Vec<usize> = vec![];
                    let mut okshape = false;
                    for take in [queue.len(), 0] {
                        expect = queue[..take].to_vec();
                        if ids == expect && take > 0 {
                            okshape = true;
                            break;
                        }
                        let mut w = expect.clone();
                        w.push(i);
                        if op.kind == "write" && ids == w {
                            okshape = true;
                            break;
                        }
                    }
                    let _ = expect;
                    if !okshape {
                        add("C06", "order", format!("op {}: socket write carries metrics {:?} but buffered were {:?} (+ current)", i, ids, queue));
                        for id in &ids {
                            if rejected[*id] {
                                add("C07", "err-not-sent", format!("op {}: metric {} whose emit returned Err was written later", i, id));
                            }
                        }
                    }
                    if a.ok {
                        for id in &ids {
                            written[*id] += 1;
                            if written[*id] > 1 {
                                add("C07", "no-duplicate", format!("metric {} written twice", id));
                            }
                            sent_now.push(*id);
                        }
                        queue.retain(|q| !ids.contains(q));
                    }
                }
            }
        }
        match (op.kind.as_str(), res) {
            ("write", OpRes::WriteOk(n)) => {
                if *n != op.len {
                    add("C06", "returns-len", format!("op {}: write returned Ok({}) for a metric of {} bytes", i, n, op.len));
                }
                if !sent_now.contains(&i) {
                    queue.push(i);
                }
                // C19
                if !atts.is_empty() {
                    if op.len + elen < cap.saturating_sub(b) && b <= cap {
                        add("C19", "no-early-write", format!("op {}: socket write although {}+{} fits in the {} bytes left", i, op.len, elen, cap - b));
                    }
                    if b <= cap && op.len + elen == cap - b && atts.iter().any(|a| !a.bytes.windows(1).any(|w| w[0] == b'a' + (i % 26) as u8)) {
                        add("C19", "pack-in-order", format!("op {}: buffered metrics flushed without metric {} which still fit exactly", i, i));
                    }
                }
            }
            ("write", OpRes::Err(msg)) => {
                rejected[i] = true;
                if !atts.iter().any(|a| !a.ok && &a.tag == msg) {
                    add("C07", "error-is-sockets", format!("op {}: write returned error \"{}\" which is not the error of a failed socket write of this call", i, msg));
                }
                if sent_now.contains(&i) {
                    add("C07", "err-not-sent", format!("op {}: write returned Err but its metric was written", i));
                }
                if !atts.is_empty() && op.len + elen < cap.saturating_sub(b) && b <= cap {
                    add("C19", "no-early-write", format!("op {}: socket write although the metric fits with room to spare", i));
                }
            }
            ("flush", OpRes::FlushOk) => {
                if !queue.is_empty() {
                    add("C06", "flush-sends-all", format!("op {}: flush returned Ok but accepted metrics {:?} were not written", i, queue));
                }
                if b == 0 && !atts.is_empty() {
                    add("C06", "empty-flush-silent", format!("op {}: flush of an empty buffer wrote to the socket", i));
                }
            }
            ("flush", OpRes::Err(msg)) => {
                if !atts.iter().any(|a| !a.ok && &a.tag == msg) {
                    add("C07", "error-is-sockets", format!("op {}: flush returned error \"{}\" which is not the error of a failed socket write of this call", i, msg));
                }
            }
            ("drop", OpRes::Dropped) => {
                let failed = atts.iter().any(|a| !a.ok);
                if !queue.is_empty() && !failed {
                    add("C06", "drop-flushes", format!("drop did not write accepted metrics {:?}", queue));
                }
            }
            _ => {}
        }
    }
    // a rejected metric must never have been written
    for i in 0..nops {
        if rejected[i] && written[i] > 0 {
            add("C07", "err-not-sent", format!("metric {} was reported as Err but appears on the wire", i));
        }
    }
    viol
}

pub fn replay(sc: &Value) -> Value {
    let cap = sc["cap"].as_u64().unwrap_or(0) as usize;
    let ending = sc["ending"].as_str().unwrap_or("\n").to_string();
    let ops = parse_ops(sc);
    let faults: Vec<bool> = sc["faults"].as_array().map(|a| a.iter().map(|x| x.as_bool().unwrap_or(false)).collect()).unwrap_or_default();
    let kinds: Vec<String> = sc["fault_kinds"].as_array().map(|a| a.iter().map(|x| x.as_str().unwrap_or("other").to_string()).collect()).unwrap_or_default();
    let built = catch_unwind(AssertUnwindSafe(|| run_real(cap, &ending, &ops, faults, kinds)));
    let out = match built {
        Ok(o) => o,
        Err(p) => {
            // run_real catches panics of the operations themselves: this one came from the constructor
            let msg = p.downcast_ref::<String>().cloned().or_else(|| p.downcast_ref::<&str>().map(|s| s.to_string())).unwrap_or_default();
            return json!({"violations": [{"prop": "C20", "clause": "no-panic", "detail": format!(
                "constructing the writer (capacity {}, terminator {:?}) panicked: {}", cap, ending, msg)}]});
        }
    };
    let viol = judge(cap, &ending, &ops, &out);
    let results: Vec<String> = out.results.iter().map(|r| format!("{:?}", r)).collect();
    let attempts: Vec<Value> = out
        .attempts
        .iter()
        .map(|a| json!({"op": a.op, "bytes": String::from_utf8_lossy(&a.bytes), "ok": a.ok}))
        .collect();
    json!({"violations": viol, "results": results, "attempts": attempts})
}

/// Behaviour of the real std BufWriter on an exhaustive small domain, for the stub differential.
pub fn bufwriter_table(max_cap: usize, max_ops: usize, max_len: usize) -> Value {
    use std::io::BufWriter;
    let mut rows = vec![];
    // op encoding: len 0..=max_len => write(len) ; max_len+1 => flush
    let nkinds = max_len + 2;
    for cap in 0..=max_cap {
        for nops in 1..=max_ops {
            let total = nkinds.pow(nops as u32);
            for code in 0..total {
                let mut c = code;
                let mut ops = vec![];
                for _ in 0..nops {
                    ops.push(c % nkinds);
                    c /= nkinds;
                }
                // fault masks over at most 2*nops+1 attempts (each op can cause at most 2 attempts; drop 1)
                let nbits = 2 * nops + 1;
                for mask in 0..(1u32 << nbits) {
                    let faults: Vec<bool> = (0..nbits).map(|k| mask >> k & 1 == 1).collect();
                    let script = Rc::new(RefCell::new(Script { faults: faults.clone(), ..Default::default() }));
                    let mut bw = BufWriter::with_capacity(cap, ScriptedWriter(script.clone()));
                    let mut res = vec![];
                    for (i, &o) in ops.iter().enumerate() {
                        script.borrow_mut().cur_op = i;
                        if o <= max_len {
                            let data = metric_bytes(i, o);
                            match bw.write(&data) {
                                Ok(n) => res.push(format!("ok{}", n)),
                                Err(_) => res.push("err".into()),
                            }
                        } else {
                            match bw.flush() {
                                Ok(()) => res.push("ok".into()),
                                Err(_) => res.push("err".into()),
                            }
                        }
                    }
                    script.borrow_mut().cur_op = ops.len();
                    drop(bw);
                    let s = script.borrow();
                    // skip masks that set bits beyond the attempts actually made (duplicates)
                    if faults.iter().enumerate().any(|(k, &f)| f && k >= s.next) {
                        continue;
                    }
                    let atts: Vec<Value> = s.attempts.iter().map(|a| json!([a.op, String::from_utf8_lossy(&a.bytes), a.ok])).collect();
                    rows.push(json!({"cap": cap, "ops": ops, "faults": faults[..s.next].to_vec(), "res": res, "attempts": atts}));
                }
            }
        }
    }
    json!({"max_len": max_len, "rows": rows})
}

/// Random scenarios against the real writer: used only to validate the oracle above (it must stay
/// silent on a tree on which the solver-side obligations pass), never to decide a property.
pub fn selftest(seed: u64, n: usize) -> Value {
    let mut x = seed.wrapping_mul(6364136223846793005).wrapping_add(1442695040888963407);
    let mut next = move |m: u64| -> u64 {
        x = x.wrapping_mul(6364136223846793005).wrapping_add(1442695040888963407);
        (x >> 33) % m
    };
    let endings = ["\n", "\r\n", "", "#\n", "##\n"];
    let mut bad = vec![];
    for _ in 0..n {
        let cap = next(24) as usize;
        let ending = endings[next(endings.len() as u64) as usize];
        let nops = 1 + next(7) as usize;
        let mut ops = vec![];
        for _ in 0..nops {
            let k = next(10);
            if k < 7 {
                let len = match next(4) {
                    0 => 1 + next(3) as usize,
                    1 => cap.saturating_sub(ending.len()).max(1),
                    2 => (cap / 2).max(1),
                    _ => 1 + next(cap as u64 + 4) as usize,
                };
                ops.push(OpSpec { kind: "write".into(), len });
            } else {
                ops.push(OpSpec { kind: "flush".into(), len: 0 });
            }
        }
        ops.push(OpSpec { kind: "flush".into(), len: 0 });
        ops.push(OpSpec { kind: "drop".into(), len: 0 });
        let nf = 3 * ops.len();
        let density = next(4);
        let faults: Vec<bool> = (0..nf).map(|_| density > 0 && next(4 + density) == 0).collect();
        let kinds: Vec<String> = (0..nf).map(|_| if next(5) == 0 { "interrupted".to_string() } else { "other".to_string() }).collect();
        let out = run_real(cap, ending, &ops, faults.clone(), kinds.clone());
        let viol = judge(cap, ending, &ops, &out);
        if !viol.is_empty() {
            let opsj: Vec<Value> = ops.iter().map(|o| json!({"op": o.kind, "len": o.len})).collect();
            bad.push(json!({"kind": "writer", "cap": cap, "ending": ending, "ops": opsj, "faults": faults, "fault_kinds": kinds, "violations": viol}));
            if bad.len() >= 5 {
                break;
            }
        }
    }
    json!({"scenarios": n, "alarms": bad})
}
