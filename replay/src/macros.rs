//! Native replay for C17: a statsd_* macro against the tagged quiet send on the global default client.
use cadence::prelude::*;
use cadence::{MetricError, MetricSink, StatsdClient};
use cadence_macros::{statsd_count, statsd_distribution, statsd_gauge, statsd_histogram, statsd_meter, statsd_set, statsd_time};
use serde_json::{json, Value};
use std::io;
use std::panic::{catch_unwind, AssertUnwindSafe};
use std::sync::{Arc, Mutex};
use std::time::Duration;

struct Rec {
    lines: Arc<Mutex<Vec<String>>>,
    fail: bool,
}

impl MetricSink for Rec {
    fn emit(&self, m: &str) -> io::Result<usize> {
        self.lines.lock().unwrap().push(m.to_string());
        if self.fail {
            Err(io::Error::new(io::ErrorKind::Other, "refused"))
        } else {
            Ok(m.len())
        }
    }
}

const KEY: &str = "some.key";

// argument expressions with a visible side effect: how often the macro evaluates each of them is observable, and tag
// values can be switched to the empty string (a legal tag value)
static EVALS: [std::sync::atomic::AtomicUsize; 6] = [const { std::sync::atomic::AtomicUsize::new(0) }; 6];
static EMPTY_TAG_VALUES: std::sync::atomic::AtomicBool = std::sync::atomic::AtomicBool::new(false);

fn bump(i: usize) {
    EVALS[i].fetch_add(1, std::sync::atomic::Ordering::SeqCst);
}
fn a_key() -> &'static str {
    bump(0);
    KEY
}
fn a_tk(i: usize) -> &'static str {
    bump(if i == 1 { 2 } else { 4 });
    if i == 1 { "k1" } else { "k2" }
}
fn a_tv(i: usize) -> &'static str {
    bump(if i == 1 { 3 } else { 5 });
    if EMPTY_TAG_VALUES.load(std::sync::atomic::Ordering::SeqCst) {
        ""
    } else if i == 1 {
        "v1"
    } else {
        "v2"
    }
}

macro_rules! both {
    ($mac:ident, $meth:ident, $val:expr, $nt:expr, $refside:expr) => {{
        if $refside {
            let c = cadence_macros::get_global_default().unwrap();
            match $nt {
                0 => c.$meth(a_key(), { bump(1); $val }).send(),
                1 => c.$meth(a_key(), { bump(1); $val }).with_tag(a_tk(1), a_tv(1)).send(),
                _ => c.$meth(a_key(), { bump(1); $val }).with_tag(a_tk(1), a_tv(1)).with_tag(a_tk(2), a_tv(2)).send(),
            }
        } else {
            match $nt {
                0 => {
                    $mac!(a_key(), { bump(1); $val });
                }
                1 => {
                    $mac!(a_key(), { bump(1); $val }, a_tk(1) => a_tv(1));
                }
                _ => {
                    $mac!(a_key(), { bump(1); $val }, a_tk(1) => a_tv(1), a_tk(2) => a_tv(2));
                }
            }
        }
    }};
}

fn call(mac: &str, vty: &str, nt: u64, refside: bool) -> bool {
    let d = Duration::from_millis(1500);
    match (mac, vty) {
        ("count", "i64") => both!(statsd_count, count_with_tags, -7i64, nt, refside),
        ("count", "i32") => both!(statsd_count, count_with_tags, -7i32, nt, refside),
        ("count", "u64") => both!(statsd_count, count_with_tags, 7u64, nt, refside),
        ("count", "u32") => both!(statsd_count, count_with_tags, 7u32, nt, refside),
        ("time", "u64") => both!(statsd_time, time_with_tags, 7u64, nt, refside),
        ("time", "Duration") => both!(statsd_time, time_with_tags, d, nt, refside),
        ("time", "Vec<u64>") => both!(statsd_time, time_with_tags, vec![1u64, 2], nt, refside),
        ("time", "Vec<Duration>") => both!(statsd_time, time_with_tags, vec![d, d], nt, refside),
        ("gauge", "u64") => both!(statsd_gauge, gauge_with_tags, 7u64, nt, refside),
        ("gauge", "f64") => both!(statsd_gauge, gauge_with_tags, 7.5f64, nt, refside),
        ("meter", "u64") => both!(statsd_meter, meter_with_tags, 7u64, nt, refside),
        ("histogram", "u64") => both!(statsd_histogram, histogram_with_tags, 7u64, nt, refside),
        ("histogram", "f64") => both!(statsd_histogram, histogram_with_tags, 7.5f64, nt, refside),
        ("histogram", "Duration") => both!(statsd_histogram, histogram_with_tags, d, nt, refside),
        ("histogram", "Vec<u64>") => both!(statsd_histogram, histogram_with_tags, vec![1u64, 2], nt, refside),
        ("histogram", "Vec<f64>") => both!(statsd_histogram, histogram_with_tags, vec![1.5f64, 2.0], nt, refside),
        ("histogram", "Vec<Duration>") => both!(statsd_histogram, histogram_with_tags, vec![d, d], nt, refside),
        ("distribution", "u64") => both!(statsd_distribution, distribution_with_tags, 7u64, nt, refside),
        ("distribution", "f64") => both!(statsd_distribution, distribution_with_tags, 7.5f64, nt, refside),
        ("distribution", "Vec<u64>") => both!(statsd_distribution, distribution_with_tags, vec![1u64, 2], nt, refside),
        ("distribution", "Vec<f64>") => both!(statsd_distribution, distribution_with_tags, vec![1.5f64, 2.0], nt, refside),
        ("set", "i64") => both!(statsd_set, set_with_tags, 7i64, nt, refside),
        _ => return false,
    }
    true
}

pub fn replay(sc: &Value) -> Value {
    let mac = sc["macro"].as_str().unwrap_or("");
    let vty = sc["vty"].as_str().unwrap_or("");
    let nt = sc["ntags"].as_u64().unwrap_or(0);
    let mut viol: Vec<Value> = vec![];
    if sc["state"].as_str() == Some("unset") {
        let r = catch_unwind(AssertUnwindSafe(|| call(mac, vty, nt, false)));
        if r.is_ok() {
            viol.push(json!({"prop": "C17", "clause": "panics-iff-unset", "detail": "no global client set but the macro did not panic"}));
        }
        return json!({"violations": viol});
    }
    if sc["state"].as_str() == Some("late-set") {
        // this thread uses the macro before any client is set (documented panic) ...
        let _ = catch_unwind(AssertUnwindSafe(|| call(mac, vty, nt, false)));
    }
    let mut out: Vec<(bool, Vec<String>, Vec<String>)> = vec![];
    // ... then (or from the start) a failing and an accepting sink, one process-wide client: the failing one is what shows lost error reports
    let lines = Arc::new(Mutex::new(vec![]));
    let handled: Arc<Mutex<Vec<String>>> = Arc::new(Mutex::new(vec![]));
    let h2 = handled.clone();
    let client = StatsdClient::builder("pre.", Rec { lines: lines.clone(), fail: true })
        .with_tag("dk", "dv")
        .with_container_id("cid")
        .with_error_handler(move |e: MetricError| h2.lock().unwrap().push(format!("{:?}", e.kind())))
        .build();
    cadence_macros::set_global_default(client);
    if sc["state"].as_str() == Some("set-twice") {
        // a later set is documented as a no-op: the first client stays the global default
        cadence_macros::set_global_default(StatsdClient::from_sink("second", Rec { lines: Arc::new(Mutex::new(vec![])), fail: false }));
    }
    for empty in [false, true] {
        if empty && nt == 0 {
            continue;
        }
        EMPTY_TAG_VALUES.store(empty, std::sync::atomic::Ordering::SeqCst);
        out.clear();
        let mut evals = vec![];
        for refside in [false, true] {
            lines.lock().unwrap().clear();
            handled.lock().unwrap().clear();
            for e in EVALS.iter() {
                e.store(0, std::sync::atomic::Ordering::SeqCst);
            }
            let r = catch_unwind(AssertUnwindSafe(|| call(mac, vty, nt, refside)));
            out.push((r.is_ok(), lines.lock().unwrap().clone(), handled.lock().unwrap().clone()));
            evals.push(EVALS.iter().map(|e| e.load(std::sync::atomic::Ordering::SeqCst)).collect::<Vec<_>>());
        }
        if !out[0].0 {
            viol.push(json!({"prop": "C17", "clause": "panics-iff-unset", "detail": "the macro panicked although a global client is set"}));
        }
        if out[0] != out[1] {
            viol.push(json!({"prop": "C17", "clause": "same-as-tagged-quiet-send", "detail": format!(
                "statsd_{}!({}, {} tags{}) on a refusing sink: macro -> emits {:?}, handler calls {:?}; tagged quiet send -> emits {:?}, handler calls {:?}",
                mac, vty, nt, if empty { ", empty tag values" } else { "" }, out[0].1, out[0].2, out[1].1, out[1].2)}));
        }
        if out[0].0 && evals[0] != evals[1] {
            viol.push(json!({"prop": "C17", "clause": "same-as-tagged-quiet-send", "detail": format!(
                "statsd_{}!({}, {} tags): argument expressions (key, value, tag keys/values) were evaluated {:?} times by the macro, {:?} times by the reference call chain",
                mac, vty, nt, evals[0], evals[1])}));
        }
    }
    json!({"violations": viol})
}
