//! Native replay for C18's logic part (first set wins, later sets are ignored): the first setter is parked inside its
//! initialisation window (in the allocation made by `Arc::new`) by a gating global allocator, a second setter and a
//! reader run meanwhile, then the first one is released.
use cadence::prelude::*;
use cadence::{MetricSink, StatsdClient};
use serde_json::{json, Value};
use std::alloc::{GlobalAlloc, Layout, System};
use std::io;
use std::sync::atomic::{AtomicBool, AtomicUsize, Ordering};
use std::sync::{Arc, Mutex};
use std::time::{Duration, Instant};

pub struct GateAlloc;

static ARMED_SIZE: AtomicUsize = AtomicUsize::new(0);
static PARKED: AtomicBool = AtomicBool::new(false);
static RELEASE: AtomicBool = AtomicBool::new(false);

unsafe impl GlobalAlloc for GateAlloc {
    unsafe fn alloc(&self, layout: Layout) -> *mut u8 {
        let want = ARMED_SIZE.load(Ordering::SeqCst);
        if want != 0 && layout.size() == want && ARMED_SIZE.compare_exchange(want, 0, Ordering::SeqCst, Ordering::SeqCst).is_ok() {
            PARKED.store(true, Ordering::SeqCst);
            let t = Instant::now();
            while !RELEASE.load(Ordering::SeqCst) && t.elapsed() < Duration::from_secs(10) {
                std::thread::yield_now();
            }
        }
        System.alloc(layout)
    }
    unsafe fn dealloc(&self, ptr: *mut u8, layout: Layout) {
        System.dealloc(ptr, layout)
    }
}

struct TagSink {
    tag: &'static str,
    seen: Arc<Mutex<Vec<&'static str>>>,
}

impl MetricSink for TagSink {
    fn emit(&self, _m: &str) -> io::Result<usize> {
        self.seen.lock().unwrap().push(self.tag);
        Ok(0)
    }
}

fn which_client(seen: &Arc<Mutex<Vec<&'static str>>>) -> Option<&'static str> {
    match cadence_macros::get_global_default() {
        Ok(c) => {
            seen.lock().unwrap().clear();
            let _ = c.count("probe", 1);
            seen.lock().unwrap().first().copied()
        }
        Err(_) => None,
    }
}

pub fn replay(_sc: &Value) -> Value {
    let seen: Arc<Mutex<Vec<&'static str>>> = Arc::new(Mutex::new(vec![]));
    let ca = StatsdClient::from_sink("a", TagSink { tag: "a", seen: seen.clone() });
    let cb = StatsdClient::from_sink("b", TagSink { tag: "b", seen: seen.clone() });
    let mut viol: Vec<Value> = vec![];
    // ArcInner<StatsdClient> = two counters + the client
    let size = std::mem::size_of::<StatsdClient>() + 2 * std::mem::size_of::<usize>();
    ARMED_SIZE.store(size, Ordering::SeqCst);
    let t1 = std::thread::spawn(move || cadence_macros::set_global_default(ca));
    let t = Instant::now();
    while !PARKED.load(Ordering::SeqCst) && t.elapsed() < Duration::from_secs(5) {
        std::thread::yield_now();
    }
    if !PARKED.load(Ordering::SeqCst) {
        RELEASE.store(true, Ordering::SeqCst);
        let _ = t1.join();
        return json!({"error": "the first setter never reached its initialisation window"});
    }
    // inside the window: a second set must be ignored, reads must say "not set"
    let is_set_before = cadence_macros::is_global_default_set();
    let during_before = which_client(&seen);
    cadence_macros::set_global_default(cb);
    let during_after = which_client(&seen);
    let is_set_during = cadence_macros::is_global_default_set();
    RELEASE.store(true, Ordering::SeqCst);
    let _ = t1.join();
    let after = which_client(&seen);
    let log = format!("window: get before 2nd set = {:?}, after 2nd set = {:?}, is_set = {}; after the first set completed: {:?}", during_before, during_after, is_set_during, after);
    if is_set_before {
        viol.push(json!({"prop": "C18", "clause": "read-after-init", "detail": format!("is_set() reported true while the only set was still inside its initialisation window (get() = {:?}): {}", during_before, log)}));
    }
    if during_before.is_some() {
        viol.push(json!({"prop": "C18", "clause": "read-after-init", "detail": format!("a get during the initialisation window returned a client: {}", log)}));
    }
    if during_after.is_some() || is_set_during {
        viol.push(json!({"prop": "C18", "clause": "single-writer", "detail": format!("a set that lost the race became visible: {}", log)}));
    }
    if after != Some("a") {
        viol.push(json!({"prop": "C18", "clause": "single-writer", "detail": format!("the first set did not win: {}", log)}));
    }
    json!({"violations": viol, "log": log})
}

/// A later set must never disturb a completed one - not even transiently. The losing setter's value is dropped inside
/// `set`; its sink parks in `Drop`, which holds the loser wherever the implementation drops the value, and the holder
/// is read meanwhile.
pub fn replay_loser_window(_sc: &Value) -> Value {
    static DROP_PARKED: AtomicBool = AtomicBool::new(false);
    static DROP_RELEASE: AtomicBool = AtomicBool::new(false);
    struct ParkOnDrop;
    impl MetricSink for ParkOnDrop {
        fn emit(&self, _m: &str) -> io::Result<usize> {
            Ok(0)
        }
    }
    impl Drop for ParkOnDrop {
        fn drop(&mut self) {
            DROP_PARKED.store(true, Ordering::SeqCst);
            let t = Instant::now();
            while !DROP_RELEASE.load(Ordering::SeqCst) && t.elapsed() < Duration::from_secs(10) {
                std::thread::yield_now();
            }
        }
    }
    let seen: Arc<Mutex<Vec<&'static str>>> = Arc::new(Mutex::new(vec![]));
    let mut viol: Vec<Value> = vec![];
    cadence_macros::set_global_default(StatsdClient::from_sink("a", TagSink { tag: "a", seen: seen.clone() }));
    let before = which_client(&seen);
    let loser = std::thread::spawn(|| cadence_macros::set_global_default(StatsdClient::from_sink("b", ParkOnDrop)));
    let t = Instant::now();
    while !DROP_PARKED.load(Ordering::SeqCst) && t.elapsed() < Duration::from_secs(5) {
        std::thread::yield_now();
    }
    let parked = DROP_PARKED.load(Ordering::SeqCst);
    let is_set_during = cadence_macros::is_global_default_set();
    let during = which_client(&seen);
    DROP_RELEASE.store(true, Ordering::SeqCst);
    let _ = loser.join();
    let after = which_client(&seen);
    let log = format!("after set(a): {:?}; while a losing set(b) was dropping its client (reached: {}): is_set = {}, get = {:?}; afterwards: {:?}", before, parked, is_set_during, during, after);
    if before != Some("a") || during != Some("a") || !is_set_during || after != Some("a") {
        viol.push(json!({"prop": "C18", "clause": "stays-set", "detail": format!("a later set disturbed the completed one: {}", log)}));
    }
    json!({"violations": viol, "log": log})
}

/// Sequential history: set(a); set(b); reads. The first set wins and later sets never disturb it.
pub fn replay_seq(_sc: &Value) -> Value {
    let seen: Arc<Mutex<Vec<&'static str>>> = Arc::new(Mutex::new(vec![]));
    let mut viol: Vec<Value> = vec![];
    if cadence_macros::is_global_default_set() || cadence_macros::get_global_default().is_ok() {
        viol.push(json!({"prop": "C18", "clause": "read-after-init", "detail": "a client is reported before any set"}));
    }
    cadence_macros::set_global_default(StatsdClient::from_sink("a", TagSink { tag: "a", seen: seen.clone() }));
    let first = which_client(&seen);
    cadence_macros::set_global_default(StatsdClient::from_sink("b", TagSink { tag: "b", seen: seen.clone() }));
    let second = which_client(&seen);
    let set2 = cadence_macros::is_global_default_set();
    cadence_macros::set_global_default(StatsdClient::from_sink("c", TagSink { tag: "b", seen: seen.clone() }));
    let third = which_client(&seen);
    let log = format!("after set(a): {:?}; after set(b): {:?} (is_set = {}); after set(c): {:?}", first, second, set2, third);
    if first != Some("a") || second != Some("a") || third != Some("a") || !set2 {
        viol.push(json!({"prop": "C18", "clause": "stays-set", "detail": format!("the first set did not stay in place: {}", log)}));
    }
    json!({"violations": viol, "log": log})
}

/// The holder as `Default::default()` builds it (the other public constructor): same lifecycle as `new()`.
pub fn replay_default_seq(_sc: &Value) -> Value {
    let h: cadence_macros::SingletonHolder<String> = Default::default();
    let mut viol: Vec<Value> = vec![];
    let before = (h.is_set(), h.get().map(|a| (*a).clone()));
    if before.0 || before.1.is_some() {
        for clause in ["read-after-init", "premature-set"] {
            viol.push(json!({"prop": "C18", "clause": clause, "detail": format!("SingletonHolder::default(): before any set is_set() = {} and get() = {:?}", before.0, before.1)}));
        }
    }
    h.set("a".to_string());
    let first = (h.is_set(), h.get().map(|a| (*a).clone()));
    h.set("b".to_string());
    let second = (h.is_set(), h.get().map(|a| (*a).clone()));
    if first != (true, Some("a".to_string())) || second != (true, Some("a".to_string())) {
        viol.push(json!({"prop": "C18", "clause": "stays-set", "detail": format!("SingletonHolder::default(): after set(a): {:?}; after set(b): {:?}", first, second)}));
    }
    json!({"violations": viol, "log": format!("before {:?} first {:?} second {:?}", before, first, second)})
}
